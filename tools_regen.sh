#!/bin/bash
# Carry a template change of /repo's working tree into the checked-in *.pulsar.go files.
# There is no protoc here, so the schemas are rebuilt from the registered descriptors (no comments):
# the files are generated twice - with the plugin of HEAD and with the plugin of the working tree -
# and the textual difference between the two outputs is applied to the committed files.
#   tools_regen.sh          show the difference only
#   tools_regen.sh --write  patch the committed files
set -e
export GOFLAGS=-mod=mod GOPROXY=off GOSUMDB=off GOTOOLCHAIN=local
REPO=${VERIF_REPO:-/repo}
S=$(mktemp -d -p ${VERIF_SCRATCH:-/var/tmp} regen-XXXXXX)
trap 'git -C $REPO worktree remove --force $S/old >/dev/null 2>&1 || true; rm -rf $S' EXIT
python3 - "$S" "$REPO" <<'PY'
import json,glob,os,sys
S,REPO=sys.argv[1],sys.argv[2]
rep={}
for pkg in ['schema','regen']:
    for f in glob.glob('/verif/engines/%s/*.go'%pkg):
        rep['%s/internal/zzverif/%s/%s'%(REPO,pkg,os.path.basename(f))]=f
json.dump({'Replace':rep},open(S+'/ov.json','w'))
PY
git -C $REPO worktree add -q --detach $S/old HEAD
(cd $S/old && go build -o $S/plugin_old ./cmd/protoc-gen-go-pulsar)
cd $REPO
go build -o $S/plugin_new ./cmd/protoc-gen-go-pulsar
# the regen binary links the committed generated packages of HEAD (schemas are unchanged by template edits)
(cd $S/old && sed "s#$REPO/#$S/old/#g" $S/ov.json > $S/ov_old.json && go build -overlay $S/ov_old.json -o $S/regen ./internal/zzverif/regen)
$S/regen -plugin $S/plugin_old -repo $REPO -out $S/a >/dev/null || true
$S/regen -plugin $S/plugin_new -repo $REPO -out $S/b >/dev/null || true
rc=0
for f in testpb/1.pulsar.go testpb/2.pulsar.go testpb/3.pulsar.go internal/testprotos/test3/test.pulsar.go internal/testprotos/test3/test_import.pulsar.go internal/testprotos/test3/test_nesting.pulsar.go; do
  if ! diff -u $S/a/$f $S/b/$f > $S/p.diff; then
    echo "== $f: $(grep -c '^[+-][^+-]' $S/p.diff) changed lines"
    rc=1
    if [ "$1" = "--write" ]; then patch -s $REPO/$f < $S/p.diff; rm -f $REPO/$f.orig; fi
  fi
done
exit $rc
