"""Build steps shared by the checks. Everything is rebuilt from REPO's working tree; nothing is written
under REPO (harness sources enter the build as overlay-virtual packages of the repo module)."""
import json
import os

ZZ = "internal/zzverif"
MOD = "github.com/cosmos/cosmos-proto"
CHECKED_IN = [MOD + "/testpb", MOD + "/internal/testprotos/test3", MOD]


def build_plugin(ck, scratch):
    out = scratch.path("protoc-gen-go-pulsar")
    if os.path.exists(out):
        return out
    rc, outp = ck.run(["go", "build", "-o", out, "./cmd/protoc-gen-go-pulsar"], cwd=ck.REPO, timeout=1200)
    if rc != 0:
        ck.log(outp[-4000:])
        raise ck.Internal("the plugin does not build from the working tree")
    return out


def gen_stage(ck, scratch, sets):
    """Run the working-tree plugin on the schema sets; returns (overlay entries, generated package paths, manifest)."""
    plugin = build_plugin(ck, scratch)
    ov = ck.build_overlay(scratch, ["schema", "gencorpus"])
    gc = scratch.path("gencorpus")
    rc, outp = ck.go_build(scratch, ov, ZZ + "/gencorpus", gc)
    if rc != 0:
        ck.log(outp[-4000:])
        raise ck.Internal("gencorpus does not build")
    outdir = scratch.path("gen")
    os.makedirs(outdir, exist_ok=True)
    rc, outp = ck.run([gc, "-plugin", plugin, "-out", outdir, "-sets", ",".join(sets)], cwd=scratch.dir, timeout=600)
    if rc != 0:
        ck.log(outp[:1500] + "\n...\n" + outp[-3000:])
        raise ck.Internal("the working-tree plugin could not generate the matrix schema (%s); see C12" % ",".join(sets))
    with open(os.path.join(outdir, "manifest.json")) as fh:
        man = json.load(fh)
    extra = {}
    for f in man["files"]:
        rel = f["pkg"][len(MOD) + 1:]
        extra[os.path.join(ck.REPO, rel, f["name"])] = f["path"]
    return extra, man["packages"], man


def write_imports(scratch, engine, pkgs, man=None, pkgname="main"):
    """imports_gen.go for the engine's package main: blank imports + request descriptors for C19."""
    p = scratch.path("imports_gen_%s.go" % engine)
    with open(p, "w") as fh:
        fh.write("package %s\n\nimport (\n" % pkgname)
        for pkg in pkgs:
            fh.write('\t_ "%s"\n' % pkg)
        fh.write(")\n")
    return p


def write_reqdata(scratch, man, tag):
    """Go file embedding the FileDescriptorProtos that were sent to the plugin (C19 compares the registered descriptors with
    them) and the Go variables of the extension fields that generated files declare, by full name."""
    if not man or not man.get("requests"):
        return None
    p = scratch.path("reqdata_gen_%s.go" % tag)
    exts = man.get("extensions") or []
    pk = sorted(set(e["pkg"] for e in exts))
    with open(p, "w") as fh:
        fh.write("package main\n\nimport (\n\t\"google.golang.org/protobuf/reflect/protoreflect\"\n")
        for i, q in enumerate(pk):
            fh.write('\tx%d "%s"\n' % (i, q))
        fh.write(")\n\n// requestFiles maps a proto file name to the serialized FileDescriptorProto handed to the plugin.\nvar requestFiles = map[string]string{\n")
        for name, path in sorted(man["requests"].items()):
            with open(path, "rb") as rf:
                b = rf.read()
            fh.write("\t%s: \"%s\",\n" % (json.dumps(name), "".join("\\x%02x" % c for c in b)))
        fh.write("}\n\n// extVars: the E_ variable protoc-gen-go's naming rules give each extension field declared by a generated file.\n")
        fh.write("var extVars = map[string]protoreflect.ExtensionType{\n")
        for e in exts:
            fh.write('\t%s: x%d.%s,\n' % (json.dumps(e["full_name"]), pk.index(e["pkg"]), e["go_name"]))
        fh.write("}\n")
    return p


_YIELD_IMPORT = '\tzzyield "github.com/cosmos/cosmos-proto/internal/zzverif/zzyield"\n'


def instrument_generated(src_path, dst_path):
    """Copy of a generated *.pulsar.go file with scheduling points inside the fast-path closures:
    at closure entry, before every nested-message Size/Marshal/Unmarshal call and before every return of
    the closures. Returns the number of points inserted (0 = file has no fast-path code)."""
    import re
    with open(src_path) as fh:
        lines = fh.readlines()
    out, n, imported = [], 0, False
    in_closure = False
    for line in lines:
        st = line.strip()
        if not imported and st == "import (":
            out.append(line)
            out.append(_YIELD_IMPORT)
            imported = True
            continue
        if re.match(r"^(size|marshal|unmarshal) := func\(input protoiface\.", st):
            in_closure = True
        if in_closure:
            if re.match(r"^options := runtime\.(Size|Marshal|Unmarshal)InputToOptions\(input\)$", st):
                out.append(line)
                out.append('zzyield.Point("enter")\n')
                n += 1
                continue
            if re.search(r"\boptions\.(Size|Marshal|Unmarshal)\(", st) and not st.startswith("//"):
                out.append('zzyield.Point("nested")\n')
                n += 1
            elif re.match(r"^return protoiface\.(Size|Marshal|Unmarshal)Output\s*\{", st):
                out.append('zzyield.Point("exit")\n')
                n += 1
            if st.startswith("return &protoiface.Methods{"):
                in_closure = False
        out.append(line)
    if n == 0 or not imported:
        return 0
    with open(dst_path, "w") as fh:
        fh.writelines(out)
    return n


def prepare(ck, prop, spec, scratch, tier):
    if spec.get("custom") == "c12":
        import c12
        return c12.prepare(ck, prop, spec, scratch, tier)
    extra = {}
    needs = list(spec["needs"])
    if spec.get("gen"):
        sets = list(spec["gen"].get(tier, spec["gen"]["quick"]))
        gen_extra, pkgs, man = gen_stage(ck, scratch, sets)
        extra.update(gen_extra)
        imp = write_imports(scratch, spec["engine"], CHECKED_IN + pkgs, man, pkgname=(spec["engine"] if spec.get("test") else "main"))
        extra[os.path.join(ck.REPO, ZZ, spec["engine"], "imports_gen.go")] = imp
        spec["gen_manifest"] = man
        if spec.get("reqdata"):
            extra[os.path.join(ck.REPO, ZZ, spec["engine"], "reqdata_gen.go")] = write_reqdata(scratch, man, spec["engine"])
    if spec.get("mapctl"):
        import mapctl
        try:
            target, patched = mapctl.patched_map_go(scratch.path("rt"))
        except Exception as e:  # noqa
            raise ck.Internal("cannot patch runtime/map.go: %s" % e)
        extra[target] = patched
    if spec.get("plugins"):
        spec.setdefault("env", {})
        spec["env"]["VERIF_PLUGIN"] = build_plugin(ck, scratch)
        if "mapctl" in spec["plugins"]:
            import mapctl
            target, patched = mapctl.patched_map_go(scratch.path("rt"))
            pov = scratch.path("plugin-mapctl-overlay.json")
            with open(pov, "w") as fh:
                json.dump({"Replace": {target: patched}}, fh)
            pout = scratch.path("protoc-gen-go-pulsar-mapctl")
            rc, outp = ck.run(["go", "build", "-overlay", pov, "-o", pout, "./cmd/protoc-gen-go-pulsar"], cwd=ck.REPO, timeout=1800)
            if rc != 0:
                ck.log(outp[-3000:])
                raise ck.Internal("the map-controlled plugin does not build")
            spec["env"]["VERIF_PLUGIN_MAPCTL"] = pout
    plain_extra = dict(extra)
    if spec.get("instrument_yield"):
        import glob as _glob
        idir = scratch.path("instrumented")
        os.makedirs(idir, exist_ok=True)
        targets = {}
        for rel in ("testpb", "internal/testprotos/test3"):
            for f in _glob.glob(os.path.join(ck.REPO, rel, "*.pulsar.go")):
                targets[f] = f
        for tgt, src in list(extra.items()):
            if tgt.endswith(".pulsar.go"):
                targets[tgt] = src
        points = 0
        for i, (tgt, src) in enumerate(sorted(targets.items())):
            dst = os.path.join(idir, "%03d_%s" % (i, os.path.basename(tgt)) + ".txt")
            k = instrument_generated(src, dst)
            if k:
                extra[tgt] = dst
                points += k
        if points == 0:
            raise ck.Internal("instrumentation of generated code inserted no scheduling point")
        ck.log("[build] %d scheduling points inserted into %d generated files" % (points, len(targets)))
    ov = ck.build_overlay(scratch, needs, extra)
    out = scratch.path("bin-" + spec["engine"])
    rc, outp = ck.go_build(scratch, ov, ZZ + "/" + spec["engine"], out,
                           race=spec.get("race", False), test=spec.get("test", False))
    if rc != 0:
        ck.log(outp[-8000:])
        raise ck.Internal("harness build failed for " + prop)
    spec["bin"] = out
    spec["extra_bins"] = {}
    for ex in spec.get("extra_engines", []):
        ex_extra = dict(extra)
        ex_extra.pop(os.path.join(ck.REPO, ZZ, spec["engine"], "imports_gen.go"), None)
        if spec.get("gen"):
            ex_extra[os.path.join(ck.REPO, ZZ, ex["engine"], "imports_gen.go")] = write_imports(scratch, ex["engine"], CHECKED_IN + pkgs, man)
        eov = ck.build_overlay(scratch, ex["needs"], ex_extra)
        eout = scratch.path("bin-" + ex["engine"])
        rc, outp = ck.go_build(scratch, eov, ZZ + "/" + ex["engine"], eout)
        if rc != 0:
            ck.log(outp[-6000:])
            raise ck.Internal("harness build failed for %s (%s)" % (prop, ex["engine"]))
        spec["extra_bins"][ex["engine"]] = eout
    if spec.get("race_twin"):
        rout = scratch.path("bin-" + spec["engine"] + "-race")
        rov = ck.build_overlay(scratch, needs, plain_extra)  # the race twin runs the generated code as it is
        rc, outp = ck.go_build(scratch, rov, ZZ + "/" + spec["engine"], rout, race=True)
        if rc != 0:
            ck.log(outp[-6000:])
            raise ck.Internal("race build of the harness failed for " + prop)
        spec.setdefault("env", {})
        spec["env"]["VERIF_SCHED_RACE_BIN"] = rout
    return spec


def setup(ck, scratch):
    from registry import PROPS
    done = set()
    for prop, spec in sorted(PROPS.items()):
        for tier in ("quick", "thorough"):
            key = (spec["engine"], spec.get("race", False), json.dumps(spec.get("gen", {}).get(tier, spec.get("gen", {}).get("quick", []))))
            if key in done:
                continue
            done.add(key)
            prepare(ck, prop, dict(spec), scratch, tier)
    return 0
