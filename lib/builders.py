"""Build steps shared by the checks. Everything is rebuilt from REPO's working tree; nothing is written
under REPO (harness sources enter the build as overlay-virtual packages of the repo module)."""
import os

ZZ = "internal/zzverif"


def prepare(ck, prop, spec, scratch, tier):
    ov = ck.build_overlay(scratch, spec["needs"])
    out = scratch.path("bin-" + spec["engine"])
    rc, outp = ck.go_build(scratch, ov, ZZ + "/" + spec["engine"], out,
                           race=spec.get("race", False), test=spec.get("test", False))
    if rc != 0:
        ck.log(outp[-8000:])
        raise ck.Internal("harness build failed for " + prop)
    spec["bin"] = out
    return spec


def setup(ck, scratch):
    from registry import PROPS
    done = set()
    for prop, spec in sorted(PROPS.items()):
        key = (spec["engine"], spec.get("race", False))
        if key in done:
            continue
        done.add(key)
        prepare(ck, prop, dict(spec), scratch, "quick")
    return 0
