"""C12: the generator is total on proto3 schemas; its output compiles and works.
Flow: (1) build the plugin from the working tree and run it on every unit of the schema grammar
(engines/schema/corpus.go) - crashes, error answers, wrong output file sets are violations;
(2) compile every emitted Go package - a package that does not compile is a violation attributed to
its schema; (3) link the compiled packages into the behavioural engines and run the C01-C10/C14 oracles
at reduced bounds on every generated type; (4) C19's coherence oracle on every generated package."""
import json
import os
import re
import subprocess
import time

import builders

MOD = builders.MOD
ZZ = builders.ZZ

BATTERY = [
    ("valuespace", ["C01", "C02", "C04", "C07", "C10"]),
    ("wirespace", ["C03", "C14"]),
    ("bytespace", ["C06"]),
    ("opspace", ["C09", "C08"]),
    ("coherence", ["C19"]),
]
# coherence runs first: incoherent descriptors (placeholders, wrong indexes) make protobuf-go itself panic inside the
# other engines, which is then a consequence of a reported violation, not a harness failure
RUN_ORDER = [4, 0, 1, 2, 3]


def prepare(ck, prop, spec, scratch, tier):
    t0 = time.time()
    plugin = builders.build_plugin(ck, scratch)
    ov = ck.build_overlay(scratch, ["schema", "gencorpus"])
    gc = scratch.path("gencorpus")
    rc, outp = ck.go_build(scratch, ov, ZZ + "/gencorpus", gc)
    if rc != 0:
        ck.log(outp[-4000:])
        raise ck.Internal("gencorpus does not build")
    outdir = scratch.path("c12gen")
    os.makedirs(outdir, exist_ok=True)
    rc, outp = ck.run([gc, "-plugin", plugin, "-out", outdir, "-sets", "corpus-" + tier], cwd=scratch.dir, timeout=3000)
    if rc != 0:
        ck.log(outp[-3000:])
        raise ck.Internal("corpus generation failed (invalid corpus schema or I/O problem)")
    ck.log("[c12] " + outp.strip().splitlines()[-1] + " (%.1fs)" % (time.time() - t0))
    with open(os.path.join(outdir, "manifest.json")) as fh:
        man = json.load(fh)
    extra = {}
    for f in man["files"]:
        rel = f["pkg"][len(MOD) + 1:]
        extra[os.path.join(ck.REPO, rel, f["name"])] = f["path"]
    # (2) compile every package; attribute failures
    ovc = scratch.path("c12-compile-overlay.json")
    with open(ovc, "w") as fh:
        json.dump({"Replace": extra}, fh)
    pkgs = list(man["packages"])
    failed = {}
    t1 = time.time()
    if pkgs:
        p = subprocess.run(["go", "build", "-overlay", ovc] + ["./" + p[len(MOD) + 1:] for p in pkgs], cwd=ck.REPO, env=ck.GOENV,
                           stdout=subprocess.PIPE, stderr=subprocess.STDOUT, text=True)
        cur = None
        for line in p.stdout.splitlines():
            m = re.match(r"^# (\S+)", line)
            if m:
                cur = m.group(1)
                failed.setdefault(cur, [])
            elif cur is not None and len(failed[cur]) < 3:
                failed[cur].append(re.sub(r"^\S*/([^/]+\.go)", r"\1", line.strip()))
            else:
                m2 = re.match(r"^(internal/zzverif/gen/\S+)/[^/]+\.go:\d+", line.strip())
                if m2:
                    failed.setdefault(MOD + "/" + m2.group(1), []).append(line.strip()[:300])
        if p.returncode != 0 and not failed:
            ck.log(p.stdout[-3000:])
            raise ck.Internal("go build of the generated corpus failed without per-package diagnostics")
    ck.log("[c12] compiled %d packages, %d failed (%.1fs)" % (len(pkgs), len(failed), time.time() - t1))
    violations = list(man.get("violations") or [])
    # a package that fails because a package it imports failed is reported once, at the root cause
    for pkg, lines in sorted(failed.items()):
        label = man.get("pkg_label", {}).get(pkg, pkg)
        unit = label.split(":")[0]
        violations.append({"key": "C12/does-not-compile/" + unit,
                           "what": "the code generated for schema %s does not compile: %s" % (label, " | ".join(lines)[:500]),
                           "case": {"unit": unit, "label": label, "phase": "compile"}})
    good = [p for p in pkgs if p not in failed]
    spec.update({"c12_manifest": man, "c12_extra": extra, "c12_good": good, "c12_violations": violations, "c12_bins": {}, "c12_tier": tier,
                 "custom_run": run})
    return spec


def engine_bin(ck, spec, scratch, engine):
    if engine in spec["c12_bins"]:
        return spec["c12_bins"][engine]
    edir = os.path.join(ck.VERIF, "engines", engine)
    if not os.path.isdir(edir):
        spec["c12_bins"][engine] = None
        return None
    extra = dict(spec["c12_extra"])
    imp = builders.write_imports(scratch, "c12-" + engine, builders.CHECKED_IN + spec["c12_good"], spec["c12_manifest"])
    extra[os.path.join(ck.REPO, ZZ, engine, "imports_gen.go")] = imp
    reqdata = builders.write_reqdata(scratch, spec["c12_manifest"], "c12-" + engine)
    if reqdata and engine == "coherence":
        extra[os.path.join(ck.REPO, ZZ, engine, "reqdata_gen.go")] = reqdata
    needs = ["hz", "enum", engine]
    ov = ck.build_overlay(scratch, needs, extra)
    out = scratch.path("c12-bin-" + engine)
    rc, outp = ck.go_build(scratch, ov, ZZ + "/" + engine, out)
    if rc != 0:
        ck.log(outp[-6000:])
        raise ck.Internal("battery engine %s does not build with the generated corpus" % engine)
    spec["c12_bins"][engine] = out
    return out


def run(ck, spec, prop, tier, seed, scratch, replay=None, budget=None):
    """Returns (rc, output, report) like run_engine."""
    env = dict(ck.GOENV)
    env.update({"VERIF_TYPES": "c12.", "VERIF_LITE": "1", "VERIF_SCRATCH_DIR": scratch.dir})
    if replay:
        with open(replay) as fh:
            body = json.load(fh)
        case = body["case"]
        sub = case.get("sub_property")
        if case.get("oracle") == "package-init":
            # a generated package panicked while registering itself: start a battery binary again
            binp = engine_bin(ck, spec, scratch, BATTERY[0][0])
            report = scratch.path("init-replay-%d.json" % int(time.time() * 1e6))
            p = subprocess.run([binp, "-prop", BATTERY[0][1][0], "-tier", "quick", "-report", report, "-budget", "1s"], cwd=scratch.dir, env=env,
                               stdout=subprocess.PIPE, stderr=subprocess.STDOUT, text=True)
            ip = None if os.path.exists(report) else ck.init_panic_report("C12", p.stdout)
            if ip is not None:
                return 1, p.stdout, ip
            return 0, p.stdout, {"violations": [], "evaluations": 2, "distinct_nontrivial": 2, "samples": [case]}
        if not sub:
            # generation/compile-phase findings: re-derive from the prepared corpus
            hits = [v for v in spec["c12_violations"] if v["key"] == body["key"]]
            rep = {"violations": hits, "evaluations": 2, "distinct_nontrivial": 2, "samples": [case]}
            return (1 if hits else 0), "", rep
        engine = case["engine"]
        binp = engine_bin(ck, spec, scratch, engine)
        inner = scratch.path("inner-replay-%d.json" % int(time.time() * 1e6))
        with open(inner, "w") as fh:
            json.dump({"property": sub, "key": case.get("inner_key", ""), "what": "", "case": case["case"]}, fh)
        report = scratch.path("inner-report-%d.json" % int(time.time() * 1e6))
        renv = dict(env, VERIF_TYPES="c12.,mx.,mxo.") if engine == "coherence" else env
        p = subprocess.run([binp, "-prop", sub, "-tier", "quick", "-report", report, "-replay", inner], cwd=scratch.dir, env=renv,
                           stdout=subprocess.PIPE, stderr=subprocess.STDOUT, text=True)
        rep = None
        if os.path.exists(report):
            with open(report) as fh:
                rep = json.load(fh)
        return p.returncode, p.stdout, rep
    violations = list(spec["c12_violations"])
    man = spec["c12_manifest"]
    total_eval, total_distinct = len(man.get("units", [])), len(man.get("units", []))
    samples = [{"unit": u["ID"], "label": u["Label"], "parameter": u["Param"], "expect": u["Expect"], "files": u["Files"]} for u in man.get("units", [])[:3]]
    sub_reports = {}
    internal = None
    for engine, subs in [BATTERY[i] for i in RUN_ORDER]:
        binp = engine_bin(ck, spec, scratch, engine)
        if binp is None:
            continue
        for sub in subs:
            report = scratch.path("c12-report-%s.json" % sub)
            t0 = time.time()
            # the corpus also holds the matrix schema (unit mx): its generated API is judged for coherence here as well
            benv = dict(env, VERIF_TYPES="c12.,mx.,mxo.") if engine == "coherence" else env
            p = subprocess.run([binp, "-prop", sub, "-tier", "quick", "-seed", str(seed), "-report", report, "-budget", "600s"],
                               cwd=scratch.dir, env=benv, stdout=subprocess.PIPE, stderr=subprocess.STDOUT, text=True)
            rep = None
            if os.path.exists(report):
                with open(report) as fh:
                    rep = json.load(fh)
            if rep is None:
                ip = ck.init_panic_report("C12", p.stdout)
                if ip is not None:
                    have = set(v["key"] for v in violations)
                    violations.extend(v for v in ip["violations"] if v["key"] not in have)
                    break
            if rep is None or p.returncode not in (0, 1) or rep.get("internal"):
                ck.log(p.stdout[-3000:])
                internal = "battery %s/%s could not run: %s" % (engine, sub, (rep or {}).get("internal", "no report"))
                continue
            ck.log("[c12] battery %s: evaluations=%s violations=%d (%.1fs)" % (sub, rep.get("evaluations"), len(rep.get("violations", [])), time.time() - t0))
            total_eval += rep.get("evaluations", 0)
            total_distinct += rep.get("distinct_nontrivial", 0)
            sub_reports[sub] = {"evaluations": rep.get("evaluations"), "distinct_nontrivial": rep.get("distinct_nontrivial"), "exhaustive": rep.get("exhaustive"),
                                "states": rep.get("states"), "transitions": rep.get("transitions")}
            for v in rep.get("violations", []):
                k = v["key"]
                k = "C12/behaviour:" + k
                violations.append({"key": k, "what": "[%s on generated corpus type] %s" % (sub, v["what"]), "count": v.get("count", 1),
                                   "case": {"sub_property": sub, "engine": engine, "inner_key": v["key"], "case": v["case"]}})
    rep = {
        "property_id": "C12", "tier": tier, "evaluations": total_eval, "distinct_nontrivial": total_distinct,
        "rule": "programs = units of the schema grammar (single-field messages kind x shape x tag width, two-field messages over shape pairs / number orders / oneof configurations, name collisions in every naming position, file graphs, request parameters); each unit is one plugin run (non-trivial: all); every emitted package is compiled; every generated type then goes through the C01 C02 C03 C04 C06 C07 C08 C09 C10 C14 C19 oracles at reduced bounds (their evaluations are added); distinct = units + the sub-oracles' distinct cases",
        "samples": samples, "exhaustive": all(r.get("exhaustive") for r in sub_reports.values()) if sub_reports else True,
        "bounds": {"units": len(man.get("units", [])), "packages_generated": len(man["packages"]), "packages_compiled": len(spec["c12_good"]),
                   "battery": sub_reports, "tier": tier},
        "caps_hit": [], "extra": {"programs": len(man.get("units", []))},
        "violations": violations,
        "assumptions": ["schemas are built as FileDescriptorProtos (validated with protodesc) because there is no protoc in the sandbox; json_name is set as protoc does",
                        "features=fast / features=protoc alone do not yield a self-contained package: only the response shape is judged for them"],
    }
    if internal and not violations:
        rep["internal"] = internal
    elif internal:
        rep["extra"]["battery_engines_that_crashed_after_a_violation_was_found"] = internal
    return (1 if violations else 0), "", rep
