"""Builds the patched copy of $GOROOT/src/runtime/map.go that puts Go's map-iteration randomness
(mapiterinit's start bucket/offset word and each map's hash0) under the control of a small block
that harness code reaches through //go:linkname, or (for subprocesses such as the plugin) that is
initialised inside the runtime from the VERIF_MAPITER environment variable."""
import os
import re
import subprocess

ADDON = r'''

// ---- verif: control of map-iteration nondeterminism (added by /verif/lib/mapctl.py) ----------

type verifCtl struct {
	Mode    uint32 // 0: untouched (random); 1: every iteration takes Word; 2: iteration K1 takes W1, K2 takes W2, the others Word
	FixHash uint32 // 1: every new map gets Hash0 as its seed
	Hash0   uint32
	Trace   uint32 // 1: print "VERIFMAP <index> <B>" on fd 2 for every iteration of a non-empty map
	Word    uint64
	K1, K2  int64
	W1, W2  uint64
	Count   int64      // iterations of non-empty maps seen so far
	B       [256]uint8 // B (log2 of bucket count) of iteration i, for i < 256
	envDone uint32
}

//go:linkname verifMapCtl
var verifMapCtl verifCtl

func verifField(s string, i *int) (uint64, bool) {
	start := *i
	for *i < len(s) && s[*i] != ',' {
		*i++
	}
	f := s[start:*i]
	if *i < len(s) {
		*i++
	}
	if f == "" {
		return 0, false
	}
	var v uint64
	neg := false
	for j := 0; j < len(f); j++ {
		c := f[j]
		if c == '-' && j == 0 {
			neg = true
			continue
		}
		if c < '0' || c > '9' {
			return 0, false
		}
		v = v*10 + uint64(c-'0')
	}
	if neg {
		v = -v
	}
	return v, true
}

func verifEnv() {
	verifMapCtl.envDone = 1
	s := gogetenv("VERIF_MAPITER") // mode,word,k1,w1,k2,w2,fixhash,hash0,trace
	if s == "" {
		return
	}
	i := 0
	var f [9]uint64
	for n := 0; n < 9; n++ {
		v, ok := verifField(s, &i)
		if ok {
			f[n] = v
		}
	}
	verifMapCtl.Mode = uint32(f[0])
	verifMapCtl.Word = f[1]
	verifMapCtl.K1 = int64(f[2])
	verifMapCtl.W1 = f[3]
	verifMapCtl.K2 = int64(f[4])
	verifMapCtl.W2 = f[5]
	verifMapCtl.FixHash = uint32(f[6])
	verifMapCtl.Hash0 = uint32(f[7])
	verifMapCtl.Trace = uint32(f[8])
}

func verifIterWord(h *hmap, r uintptr) uintptr {
	if verifMapCtl.envDone == 0 {
		verifEnv()
	}
	c := &verifMapCtl
	if c.Mode == 0 && c.Trace == 0 {
		return r
	}
	idx := c.Count
	c.Count++
	if idx < int64(len(c.B)) {
		c.B[idx] = h.B
	}
	if c.Trace != 0 {
		print("VERIFMAP ", idx, " ", h.B, "\n")
	}
	switch c.Mode {
	case 1:
		return uintptr(c.Word)
	case 2:
		if idx == c.K1 {
			return uintptr(c.W1)
		}
		if idx == c.K2 {
			return uintptr(c.W2)
		}
		return uintptr(c.Word)
	}
	return r
}

func verifHash0(r uint32) uint32 {
	if verifMapCtl.envDone == 0 {
		verifEnv()
	}
	if verifMapCtl.FixHash != 0 {
		return verifMapCtl.Hash0
	}
	return r
}
'''


def goroot():
    return subprocess.run(["go", "env", "GOROOT"], stdout=subprocess.PIPE, text=True, check=True).stdout.strip()


def patched_map_go(dst_dir):
    """Writes <dst_dir>/map.go.txt and returns (overlay_target_path, file_path)."""
    root = goroot()
    src = os.path.join(root, "src", "runtime", "map.go")
    with open(src) as fh:
        s = fh.read()
    s, n1 = re.subn(r"r := uintptr\(rand\(\)\)\n(\s*)it\.startBucket", r"r := verifIterWord(h, uintptr(rand()))\n\1it.startBucket", s)
    s, n2 = re.subn(r"h\.hash0 = uint32\(rand\(\)\)", "h.hash0 = verifHash0(uint32(rand()))", s)
    if n1 != 1 or n2 < 3:
        raise RuntimeError("runtime/map.go does not look as expected (iter sites %d, hash0 sites %d)" % (n1, n2))
    s += ADDON
    os.makedirs(dst_dir, exist_ok=True)
    out = os.path.join(dst_dir, "map.go.txt")
    with open(out, "w") as fh:
        fh.write(s)
    return src, out
