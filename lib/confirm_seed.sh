#!/bin/bash
# confirm_seed.sh <name> <property> <demo-dest-dir-relative-to-repo> <go test -run pattern> <srcdir> "<needs text>"
# Confirms a seeded change against /repo HEAD in a scratch worktree (outside /repo and /verif):
# patch applies, repo builds, existing suite passes with it (demo absent), demo fails with it and
# passes without it. On success stores /verif/seeded/<name>/{patch.diff,<demo>,meta.json}.
set -u
export GOFLAGS=-mod=mod GOPROXY=off GOSUMDB=off GOTOOLCHAIN=local
NAME=$1; PROP=$2; DEST=$3; RUN=$4; SRC=$5; NEEDS=$6
WT=$(mktemp -d -p /var/tmp seedwt-XXXXXX)
rmdir $WT
git -C /repo worktree add -q --detach $WT HEAD || exit 2
cleanup() { git -C /repo worktree remove --force $WT >/dev/null 2>&1; rm -rf $WT; }
trap cleanup EXIT
cd $WT
DEMO=$(ls $SRC/*_test.go | head -1)
if ! git apply --check $SRC/patch.diff 2>/dev/null; then
  if git apply --3way $SRC/patch.diff >/dev/null 2>&1; then echo "patch applied with 3way"; git add -A; git diff --cached HEAD > $WT/.rebased.diff; git reset -q; else echo "RESULT $NAME: patch does not apply to HEAD"; exit 1; fi
else
  git apply $SRC/patch.diff; git add -A; git diff --cached HEAD > $WT/.rebased.diff; git reset -q
fi
go build ./... || { echo "RESULT $NAME: does not build"; exit 1; }
SUITE=$(go test -vet=off -count=1 ./... 2>&1 | grep -v "no test files")
if echo "$SUITE" | grep -q "^FAIL\|^---\|panic"; then echo "$SUITE" | tail -20; echo "RESULT $NAME: existing suite fails with the change"; exit 1; fi
mkdir -p $WT/$DEST; cp $SRC/*_test.go $WT/$DEST/
WITH=$(go test ${SEED_TEST_FLAGS:-} -vet=off -count=1 -run "$RUN" ./$DEST/ 2>&1); WRC=$?
git apply -R $WT/.rebased.diff
WITHOUT=$(go test ${SEED_TEST_FLAGS:-} -vet=off -count=1 -run "$RUN" ./$DEST/ 2>&1); WORC=$?
echo "demo with change rc=$WRC ; without rc=$WORC"
if [ $WRC -eq 0 ] || [ $WORC -ne 0 ]; then echo "$WITH" | tail -5; echo "$WITHOUT" | tail -5; echo "RESULT $NAME: demo does not discriminate"; exit 1; fi
mkdir -p /verif/seeded/$NAME
cp $WT/.rebased.diff /verif/seeded/$NAME/patch.diff
cp $SRC/*_test.go /verif/seeded/$NAME/
[ -f $SRC/NOTES.md ] && cp $SRC/NOTES.md /verif/seeded/$NAME/NOTES.md
python3 - "$NAME" "$PROP" "$DEST" "$RUN" "$NEEDS" "$(basename $DEMO)" "$(git -C /repo rev-parse --short HEAD)" <<'PY'
import json,sys
name,prop,dest,run,needs,demo,head=sys.argv[1:8]
json.dump({"property":prop,"origin":"independent sub-agent given only the property text and a scratch worktree","needs_to_manifest":needs,
 "demo":{"file":demo,"place_in":dest,"command":"go test %s -vet=off -count=1 -run '%s' ./%s/"%(__import__('os').environ.get('SEED_TEST_FLAGS',''),run,dest)},
 "confirmed":{"against_repo_commit":head,"builds":True,"existing_suite_passes_with_change":True,"demo_fails_with_change":True,"demo_passes_without_change":True,
   "how":"lib/confirm_seed.sh in a scratch worktree under /var/tmp (removed afterwards)"},
 "detected_by":[prop],"tier":"quick"}, open('/verif/seeded/%s/meta.json'%name,'w'), indent=1)
PY
echo "RESULT $NAME: confirmed"
