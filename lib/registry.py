"""property id -> how it is decided. 'engine' names a directory of /verif/engines; 'needs' lists the
virtual packages compiled with it; 'level' is the evidence level; 'budget' an optional per-tier time
budget handed to the engine (enumeration stops with exhaustive:false, exit 0)."""

VS = {"engine": "valuespace", "needs": ["hz", "enum", "valuespace"], "level": "exploration",
      "gen": {"quick": ["mx"], "thorough": ["mx", "mxall"]}}

WS = {"engine": "wirespace", "needs": ["hz", "enum", "wirespace"], "level": "exploration",
      "gen": {"quick": ["mx"], "thorough": ["mx", "mxall"]}}

BS = {"engine": "bytespace", "needs": ["hz", "enum", "bytespace"], "level": "exploration",
      "gen": {"quick": ["mx"], "thorough": ["mx"]}}

OS = {"engine": "opspace", "needs": ["hz", "enum", "opspace"], "level": "exploration",
      "gen": {"quick": ["mx"], "thorough": ["mx"]}}

MS = {"engine": "mapspace", "needs": ["hz", "enum", "mapspace"], "level": "model_checking", "mapctl": True,
      "gen": {"quick": ["mx"], "thorough": ["mx", "mxall"]}, "budget": {"quick": "200s", "thorough": "1500s"}}

GS13 = {"engine": "genspace", "needs": ["hz", "schema", "genspace"], "level": "model_checking", "plugins": ["plain", "mapctl"],
        "budget": {"quick": "900s", "thorough": "2400s"}}

SM = {"engine": "small", "needs": ["hz", "enum", "small"], "level": "exploration", "gen": {"quick": ["mx"], "thorough": ["mx"]}}

RS = {"engine": "rapidspace", "needs": ["hz", "enum", "rapidspace"], "level": "model_checking", "test": True,
      "gen": {"quick": ["mx"], "thorough": ["mx"]}, "args": ["-test.run", "TestC18", "-test.timeout", "0"],
      "budget": {"quick": "900s", "thorough": "1800s"}}

PROPS = {
    "C11": {"engine": "sched", "needs": ["hz", "enum", "zzyield", "sched"], "level": "model_checking", "race_twin": True, "instrument_yield": True, "mapctl": True,
            "gen": {"quick": ["mx"], "thorough": ["mx"]}, "budget": {"quick": "900s", "thorough": "2400s"}},
    "C19": {"engine": "coherence", "needs": ["hz", "enum", "coherence"], "level": "exploration", "reqdata": True,
            "gen": {"quick": ["mx"], "thorough": ["mx", "mxall"]}},
    "C12": {"engine": "genspace", "custom": "c12", "needs": [], "level": "exploration"},
    "C18": dict(RS),
    "C13": dict(GS13),
    "C05": dict(MS),
    "C09": dict(OS),
    "C08": dict(OS, level="model_checking", budget={"quick": "600s", "thorough": "1500s"}),
    "C06": dict(BS),
    "C03": dict(WS),
    "C14": dict(WS),
    "C01": dict(VS),
    "C02": dict(VS),
    "C04": dict(VS),
    "C07": dict(VS, extra_engines=[{"engine": "wirespace", "needs": ["hz", "enum", "wirespace"]}]),
    "C10": dict(VS, gen={"quick": ["mx", "mxr"], "thorough": ["mx", "mxall", "mxr"]}),
    "C15": dict(SM),
    "C16": dict(SM),
    "C17": dict(SM),
}
