"""Runs checks against property-breaking changes: /verif/mutants/<ID>/*.patch (my own) and
/verif/seeded/<name>/patch.diff (independent, from sub-agents; meta.json names the property).
Each patch is applied to REPO's working tree (which must be clean), the check is run, and the tree
is restored with `git checkout -- .` straight afterwards."""
import glob
import json
import os
import subprocess
import sys


def git(ck, *args):
    return subprocess.run(["git", "-C", ck.REPO] + list(args), stdout=subprocess.PIPE, stderr=subprocess.STDOUT, text=True)


def collect(ck, args):
    items = []
    for p in sorted(glob.glob(os.path.join(ck.VERIF, "mutants", "*", "*.patch"))):
        prop = os.path.basename(os.path.dirname(p))
        items.append({"name": "mutants/%s/%s" % (prop, os.path.basename(p)), "patch": p, "props": [prop], "tier": "quick"})
    for d in sorted(glob.glob(os.path.join(ck.VERIF, "seeded", "*"))):
        meta_p = os.path.join(d, "meta.json")
        patch = os.path.join(d, "patch.diff")
        if not (os.path.exists(meta_p) and os.path.exists(patch)):
            continue
        with open(meta_p) as fh:
            meta = json.load(fh)
        props = meta.get("detected_by") or [meta["property"]]
        items.append({"name": "seeded/" + os.path.basename(d), "patch": patch, "props": props, "tier": meta.get("tier", "quick"),
                      "expect": meta.get("expect", "detected"), "superseded": meta.get("superseded_by_fix")})
    if args:
        items = [it for it in items if any(a in it["name"] for a in args)]
        # run in the order the caller named them
        items.sort(key=lambda it: min(i for i, a in enumerate(args) if a in it["name"]))
    return items


def main(ck, args):
    st = git(ck, "status", "--porcelain")
    if st.stdout.strip():
        print("REPO working tree is not clean; refusing to apply patches")
        return 2
    items = collect(ck, args)
    results = []
    # evidence files must describe the unchanged tree: keep them aside while patched trees are checked
    import shutil, tempfile
    evdir = os.path.join(ck.VERIF, "evidence")
    keep = tempfile.mkdtemp(prefix="verif-evidence-", dir=ck.SCRATCH_ROOT)
    if os.path.isdir(evdir):
        for f in os.listdir(evdir):
            shutil.copy2(os.path.join(evdir, f), keep)
    for it in items:
        ap = git(ck, "apply", "--whitespace=nowarn", it["patch"])
        if ap.returncode != 0 and it.get("superseded"):
            results.append((it["name"], "SUPERSEDED", "the code it changes was rewritten by fix %s; detected on the tree before that fix" % it["superseded"]))
            git(ck, "checkout", "--", ".")
            continue
        if ap.returncode != 0:
            results.append((it["name"], "PATCH-DOES-NOT-APPLY", ap.stdout.strip()[:200]))
            git(ck, "checkout", "--", ".")
            continue
        try:
            for prop in it["props"]:
                p = subprocess.run([os.path.join(ck.VERIF, "check"), prop, "--tier", it["tier"]],
                                   stdout=subprocess.PIPE, stderr=subprocess.PIPE, text=True, cwd=ck.VERIF)
                viol = [l for l in p.stdout.splitlines() if l.startswith("VIOLATION")]
                first = ""
                for l in p.stdout.splitlines():
                    if l.startswith("  key="):
                        first = l.strip()[:220]
                        break
                verdict = "DETECTED" if (p.returncode == 1 and viol) else ("MISSED" if p.returncode == 0 else "CHECK-ERROR rc=%d" % p.returncode)
                if verdict.startswith("CHECK-ERROR"):
                    first = (p.stderr or "")[-300:].replace("\n", " | ")
                results.append((it["name"] + " -> " + prop, verdict, "%d violation lines; %s" % (len(viol), first)))
                print("[progress] %s -> %s %s" % (it["name"], prop, verdict), flush=True)
        finally:
            git(ck, "checkout", "--", ".")
            cl = git(ck, "status", "--porcelain")
            if cl.stdout.strip():
                git(ck, "clean", "-fd")
    for f in os.listdir(keep):
        shutil.copy2(os.path.join(keep, f), evdir)
    shutil.rmtree(keep, ignore_errors=True)
    bad = 0
    for name, verdict, info in results:
        print("%-60s %-12s %s" % (name, verdict, info))
        if verdict not in ("DETECTED", "SUPERSEDED"):
            bad += 1
    sup = len([1 for _, v, _ in results if v == "SUPERSEDED"])
    # leave evidence files describing the unchanged tree, not a mutant: callers re-run checks afterwards
    print("%d/%d detected (%d superseded by a later fix, not run)" % (len(results) - bad - sup, len(results) - sup, sup))
    return 0 if bad == 0 else 1
