ENGINES = [
    {"name": "small", "path": "/verif/engines/small", "serves_properties": ["C15", "C16", "C17"],
     "kind_free_text": "exhaustive enumeration of integer ranges, boundary lattices and short byte strings against protowire / exact arithmetic"},
]

NOT_BUILT_REASON = {}

TEXT = {
    "C15": {
        "technique": "bounded exhaustive enumeration (stateless model checking of inputs): dense integer sweep, boundary set, all short byte strings; oracle = protowire",
        "level_text": "Every x below 2^24 (quick) / 2^32 (thorough) plus every bit-length boundary of the 64-bit range is compared with protowire for Sov/Soz; EncodeVarint is run for every boundary value at every offset of a sentinel-filled buffer; Skip is run on every byte string of length <=3 and every string of length <=5/6 over a reduced alphabet, compared with protowire.ConsumeField whenever that accepts. Complete within those bounds, which contain every varint length, every wire type and every group nesting shape expressible in 6 bytes.",
        "level_note": "Trusted: protowire v1.34.0 as the wire-format definition; Go toolchain. Values between 2^32 and 2^64 are covered only at bit-length boundaries (the size functions depend on bit length only).",
        "design_ref": "DESIGN.md section 2, C15",
    },
    "C17": {
        "technique": "bounded exhaustive enumeration of the (timestamp,duration) boundary lattice and of all pairs/triples for Compare; oracle = exact integer arithmetic cross-checked with math/big",
        "level_text": "Full cross product of boundary seconds (both range ends, around zero) with nanos windows [0..K], {5e8-1,5e8}, [1e9-1-K..1e9-1] for timestamps and durations of both signs (K=64 quick, 1024 thorough): every carry and borrow boundary pair in those windows, compared with exact arithmetic, AddStd, CheckValid, freshness and operand immutability; int64-overflow lattice must panic; Compare equals the exact order on all ordered pairs and is transitive on all triples.",
        "level_note": "Trusted: timestamppb/durationpb validity ranges, math/big. Seconds values strictly inside the ranges other than the listed boundary values are not enumerated (the code is uniform in seconds apart from overflow).",
        "design_ref": "DESIGN.md section 2, C17",
    },
}
