#!/usr/bin/env python3
"""Regenerates /verif/MANIFEST.json from lib/registry.py + lib/manifest_text.py so the file is always
valid and consistent with what the orchestrator can actually run."""
import json, os, sys
HERE = os.path.dirname(os.path.abspath(__file__))
sys.path.insert(0, HERE)
from registry import PROPS
from manifest_text import TEXT, ENGINES, NOT_BUILT_REASON

ALL = ["C%02d" % i for i in range(1, 20)]
checks = []
for pid in ALL:
    if pid not in PROPS or pid not in TEXT:
        continue
    t = TEXT[pid]
    checks.append({
        "property_id": pid,
        "quick_cmd": "./check %s --tier quick" % pid,
        "thorough_cmd": "./check %s --tier thorough" % pid,
        "evidence_file": "/verif/evidence/%s.json" % pid,
        "replay_cmd_template": "./check replay {path}",
        "engine": PROPS[pid]["engine"],
        "level_claimed": {"category": PROPS[pid]["level"], "text": t["level_text"], "design_ref": t["design_ref"]},
        "level_note": t["level_note"],
        "technique": t["technique"],
    })
na = [{"property_id": pid, "reason": NOT_BUILT_REASON.get(pid, "check not built yet in this round; design in DESIGN.md section 2")}
      for pid in ALL if pid not in PROPS or pid not in TEXT]
m = {
    "version": 1,
    "setup_cmd": "./check setup",
    "hooks": {
        "guard": "verif",
        "enable": "no source hooks exist in /repo: all instrumentation is injected at build time from /verif with `go build -overlay` (virtual harness packages inside the repo module, generated code, patched runtime/map.go); the build tag `verif` is reserved and unused",
        "baseline_off_cmd": "cd /repo && GOFLAGS=-mod=mod GOPROXY=off GOSUMDB=off GOTOOLCHAIN=local go test -vet=off -count=1 ./...",
        "source_commits": [],
        "add_only": True,
    },
    "engines": ENGINES,
    "checks": checks,
    "notes": "Every check: ./check <ID> --tier quick|thorough (cwd=/verif). Exit 0 held / 1 VIOLATION (replay file under /verif/replays/<ID>/) / 2 harness could not run. Known findings: /verif/known_findings.json. Fix commits in /repo start with 'fix:'. VERIF_REPO overrides /repo, VERIF_SCRATCH overrides /var/tmp.",
    "not_applicable": na,
}
with open(os.path.join(HERE, "..", "MANIFEST.json"), "w") as fh:
    json.dump(m, fh, indent=1)
    fh.write("\n")
print("MANIFEST.json: %d checks, %d not_applicable" % (len(checks), len(na)))
