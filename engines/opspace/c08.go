package main

import (
	"bytes"
	"fmt"
	"os"
	"sort"
	"strings"
	"sync"
	"sync/atomic"

	"github.com/cosmos/cosmos-proto/internal/zzverif/enum"
	"github.com/cosmos/cosmos-proto/internal/zzverif/hz"
	"google.golang.org/protobuf/proto"
	"google.golang.org/protobuf/reflect/protoreflect"
)

// ---- explicit-state search over reflection-operation histories -------------------------------
//
// State      = canonical form of the reference model (a dynamicpb message) + the set of fields for
//              which the history still holds a live Mutable view ("handle").
// Transition = one mutating protoreflect operation, executed in lock-step on three fresh objects:
//              fast (generated code under test), slow (protobuf-go struct reflection over a second
//              struct) and dyn (dynamicpb). Live objects cannot be cloned, so a successor is built by
//              replaying the history on fresh instances plus one operation.
// Oracle     = after every transition: return values and panics agree, and a battery of read
//              operations on the resulting state agrees (consensus rule: judged only where slow and
//              dyn agree with each other).

type hnd struct {
	fd   protoreflect.FieldDescriptor
	v    protoreflect.Value
	held bool
}

type env struct {
	m protoreflect.Message
	h map[protoreflect.FieldNumber]*hnd
	// donors: the list / map / message value most recently handed to Set for a field. The caller
	// keeps it, so what it reads as afterwards is part of the observable state.
	d map[protoreflect.FieldNumber]*hnd
}

func (e *env) donate(fd protoreflect.FieldDescriptor, v protoreflect.Value) {
	if e.d == nil {
		e.d = map[protoreflect.FieldNumber]*hnd{}
	}
	e.d[fd.Number()] = &hnd{fd: fd, v: v}
}

func (e *env) release(fd protoreflect.FieldDescriptor) {
	delete(e.h, fd.Number())
	if od := fd.ContainingOneof(); od != nil && !od.IsSynthetic() {
		for i := 0; i < od.Fields().Len(); i++ {
			delete(e.h, od.Fields().Get(i).Number())
		}
	}
}

type op struct {
	name     string
	class    string
	mutating bool
	enabled  func(e *env) bool
	run      func(e *env) string
}

// opGroup: the field (or oneof) an operation touches; "?unknown" for the unknown set. Keyed by type and operation name.
var (
	opGroupMu sync.Mutex
	opGroup   = map[string]string{}
)

func groupOfOp(md protoreflect.MessageDescriptor, o *op) string {
	opGroupMu.Lock()
	defer opGroupMu.Unlock()
	return opGroup[string(md.FullName())+"\x00"+o.name]
}

func fdIn(e *env, fd protoreflect.FieldDescriptor) protoreflect.FieldDescriptor {
	return e.m.Descriptor().Fields().ByNumber(fd.Number())
}

func firstScalarField(md protoreflect.MessageDescriptor) protoreflect.FieldDescriptor {
	fs := md.Fields()
	for i := 0; i < fs.Len(); i++ {
		fd := fs.Get(i)
		if fd.Kind() != protoreflect.MessageKind && !fd.IsList() && !fd.IsMap() && fd.ContainingOneof() == nil {
			return fd
		}
	}
	return nil
}

func always(*env) bool { return true }

func genOps(md protoreflect.MessageDescriptor) []op {
	var ops []op
	curGroup := ""
	add := func(o op) {
		opGroupMu.Lock()
		opGroup[string(md.FullName())+"\x00"+o.name] = curGroup
		opGroupMu.Unlock()
		ops = append(ops, o)
	}
	groupOf := func(fd protoreflect.FieldDescriptor) string {
		if od := fd.ContainingOneof(); od != nil && !od.IsSynthetic() {
			return "oneof:" + string(od.Name())
		}
		return string(fd.Name())
	}
	fs := md.Fields()
	for i := 0; i < fs.Len(); i++ {
		fd := fs.Get(i)
		curGroup = groupOf(fd)
		name := string(fd.Name())
		shape := shapeOf(fd)
		isMsg := fd.Kind() == protoreflect.MessageKind
		held := func(e *env) bool { h, ok := e.h[fd.Number()]; return ok && h.held }
		add(op{"Clear(" + name + ")", "Clear/" + shape, true, always, func(e *env) string {
			e.m.Clear(fdIn(e, fd))
			e.release(fd)
			return ""
		}})
		switch {
		case fd.IsList():
			var x, y protoreflect.Value
			var inner protoreflect.FieldDescriptor
			if isMsg {
				inner = firstScalarField(fd.Message())
			} else {
				al := enum.ScalarAlphabet(fd, enum.Reduced)
				x, y = al[1], al[0]
			}
			newElem := func(l protoreflect.List, fill bool) protoreflect.Value {
				ne := l.NewElement()
				if fill && inner != nil {
					ne.Message().Set(inner, sampleValue(inner, 0))
				}
				return ne
			}
			for n := 0; n <= 2; n++ {
				n := n
				add(op{fmt.Sprintf("Set(%s,list%d)", name, n), "Set/" + shape, true, always, func(e *env) string {
					nl := e.m.NewField(fdIn(e, fd)).List()
					for k := 0; k < n; k++ {
						if isMsg {
							nl.Append(newElem(nl, k == 0))
						} else if k == 0 {
							nl.Append(x)
						} else {
							nl.Append(y)
						}
					}
					e.m.Set(fdIn(e, fd), protoreflect.ValueOfList(nl))
					e.release(fd)
					e.donate(fd, protoreflect.ValueOfList(nl))
					return ""
				}})
			}
			add(op{"Mutable(" + name + ")", "Mutable/" + shape, true, always, func(e *env) string {
				v := e.m.Mutable(fdIn(e, fd))
				e.h[fd.Number()] = &hnd{fd: fd, v: v, held: true}
				return fmt.Sprintf("valid=%v len=%d", v.List().IsValid(), v.List().Len())
			}})
			add(op{"Mutable(" + name + ").Append(y)", "Mutable.List.Append/" + shape, true, always, func(e *env) string {
				// the usual one-liner: a view taken only for this append
				l := e.m.Mutable(fdIn(e, fd)).List()
				e.release(fd)
				if isMsg {
					l.Append(newElem(l, false))
				} else {
					l.Append(y)
				}
				return fmt.Sprint(l.Len())
			}})
			add(op{"h(" + name + ").Append(x)", "List.Append/" + shape, true, held, func(e *env) string {
				l := e.h[fd.Number()].v.List()
				if isMsg {
					l.Append(newElem(l, true))
				} else {
					l.Append(x)
				}
				return fmt.Sprint(l.Len())
			}})
			if isMsg {
				add(op{"h(" + name + ").AppendMutable+Set", "List.AppendMutable/" + shape, true, held, func(e *env) string {
					l := e.h[fd.Number()].v.List()
					nm := l.AppendMutable().Message()
					if inner != nil {
						nm.Set(inner, sampleValue(inner, 1))
					}
					return fmt.Sprint(l.Len())
				}})
				add(op{"h(" + name + ").Get(0).Set(inner)", "List.Get.write-through/" + shape, true, func(e *env) bool { return held(e) && e.h[fd.Number()].v.List().Len() > 0 && inner != nil }, func(e *env) string {
					l := e.h[fd.Number()].v.List()
					l.Get(0).Message().Set(inner, sampleValue(inner, 1))
					return ""
				}})
			} else {
				add(op{"h(" + name + ").Append(zero)", "List.Append/" + shape, true, held, func(e *env) string {
					l := e.h[fd.Number()].v.List()
					l.Append(y)
					return fmt.Sprint(l.Len())
				}})
				add(op{"h(" + name + ").Set(0,x')", "List.Set/" + shape, true, func(e *env) bool { return held(e) && e.h[fd.Number()].v.List().Len() > 0 }, func(e *env) string {
					l := e.h[fd.Number()].v.List()
					al := enum.ScalarAlphabet(fd, enum.Reduced)
					l.Set(0, al[len(al)-1])
					return ""
				}})
			}
			if fd.Kind() == protoreflect.BytesKind {
				// a value read earlier stays what it was: read element 0, replace it by other bytes of the same length, append
				// what was read (an implementation that writes the new bytes into the old element's storage changes "old")
				add(op{"h(" + name + ").Set(0,other)+Append(old)", "List.Set.keeps-old-value/" + shape, true, func(e *env) bool {
					if !held(e) {
						return false
					}
					l := e.h[fd.Number()].v.List()
					return l.Len() > 0 && len(l.Get(0).Bytes()) > 0
				}, func(e *env) string {
					l := e.h[fd.Number()].v.List()
					old := l.Get(0)
					l.Set(0, protoreflect.ValueOfBytes(bytes.Repeat([]byte{0x5a}, len(old.Bytes()))))
					l.Append(old)
					return fmt.Sprintf("%x", old.Bytes())
				}})
			}
			add(op{"h(" + name + ").Truncate(0)", "List.Truncate/" + shape, true, held, func(e *env) string {
				e.h[fd.Number()].v.List().Truncate(0)
				return ""
			}})
			add(op{"h(" + name + ").Truncate(len-1)", "List.Truncate/" + shape, true, func(e *env) bool { return held(e) && e.h[fd.Number()].v.List().Len() > 0 }, func(e *env) string {
				l := e.h[fd.Number()].v.List()
				l.Truncate(l.Len() - 1)
				return ""
			}})
		case fd.IsMap():
			kal := enum.ScalarAlphabet(fd.MapKey(), enum.Reduced)
			k0, k1 := kal[0].MapKey(), kal[1].MapKey()
			vIsMsg := fd.MapValue().Kind() == protoreflect.MessageKind
			var inner protoreflect.FieldDescriptor
			var v0, v1 protoreflect.Value
			if vIsMsg {
				inner = firstScalarField(fd.MapValue().Message())
			} else {
				val := enum.ScalarAlphabet(fd.MapValue(), enum.Reduced)
				v0, v1 = val[0], val[1]
			}
			newVal := func(mp protoreflect.Map, fill bool) protoreflect.Value {
				nv := mp.NewValue()
				if fill && inner != nil {
					nv.Message().Set(inner, sampleValue(inner, 0))
				}
				return nv
			}
			for n := 0; n <= 1; n++ {
				n := n
				add(op{fmt.Sprintf("Set(%s,map%d)", name, n), "Set/" + shape, true, always, func(e *env) string {
					nm := e.m.NewField(fdIn(e, fd)).Map()
					if n == 1 {
						if vIsMsg {
							nm.Set(k1, newVal(nm, true))
						} else {
							nm.Set(k1, v1)
						}
					}
					e.m.Set(fdIn(e, fd), protoreflect.ValueOfMap(nm))
					e.release(fd)
					e.donate(fd, protoreflect.ValueOfMap(nm))
					return ""
				}})
			}
			add(op{"Mutable(" + name + ")", "Mutable/" + shape, true, always, func(e *env) string {
				v := e.m.Mutable(fdIn(e, fd))
				e.h[fd.Number()] = &hnd{fd: fd, v: v, held: true}
				return fmt.Sprintf("valid=%v len=%d", v.Map().IsValid(), v.Map().Len())
			}})
			add(op{"h(" + name + ").Set(k0,v1)", "Map.Set/" + shape, true, held, func(e *env) string {
				mp := e.h[fd.Number()].v.Map()
				if vIsMsg {
					mp.Set(k0, newVal(mp, true))
				} else {
					mp.Set(k0, v1)
				}
				return fmt.Sprint(mp.Len())
			}})
			add(op{"h(" + name + ").Set(k1,v0)", "Map.Set/" + shape, true, held, func(e *env) string {
				mp := e.h[fd.Number()].v.Map()
				if vIsMsg {
					mp.Set(k1, newVal(mp, false))
				} else {
					mp.Set(k1, v0)
				}
				return fmt.Sprint(mp.Len())
			}})
			if fd.MapValue().Kind() == protoreflect.BytesKind {
				add(op{"h(" + name + ").Set(k0,other)+Set(k1,old)", "Map.Set.keeps-old-value/" + shape, true, func(e *env) bool {
					if !held(e) {
						return false
					}
					mp := e.h[fd.Number()].v.Map()
					return mp.Has(k0) && len(mp.Get(k0).Bytes()) > 0
				}, func(e *env) string {
					mp := e.h[fd.Number()].v.Map()
					old := mp.Get(k0)
					mp.Set(k0, protoreflect.ValueOfBytes(bytes.Repeat([]byte{0x5a}, len(old.Bytes()))))
					mp.Set(k1, old)
					return fmt.Sprintf("%x", old.Bytes())
				}})
			}
			add(op{"h(" + name + ").Clear(k0)", "Map.Clear/" + shape, true, held, func(e *env) string {
				mp := e.h[fd.Number()].v.Map()
				mp.Clear(k0)
				return fmt.Sprint(mp.Len())
			}})
			if vIsMsg {
				add(op{"h(" + name + ").Mutable(k1)+Set", "Map.Mutable/" + shape, true, held, func(e *env) string {
					mp := e.h[fd.Number()].v.Map()
					nm := mp.Mutable(k1).Message()
					if inner != nil {
						nm.Set(inner, sampleValue(inner, 1))
					}
					return fmt.Sprint(mp.Len())
				}})
			}
		case isMsg:
			inner := firstScalarField(fd.Message())
			for n := 0; n <= 1; n++ {
				n := n
				add(op{fmt.Sprintf("Set(%s,msg%d)", name, n), "Set/" + shape, true, always, func(e *env) string {
					nv := e.m.NewField(fdIn(e, fd))
					if n == 1 && inner != nil {
						nv.Message().Set(inner, sampleValue(inner, 0))
					}
					e.release(fd)
					e.m.Set(fdIn(e, fd), nv)
					e.donate(fd, nv)
					return ""
				}})
			}
			add(op{"Mutable(" + name + ")", "Mutable/" + shape, true, always, func(e *env) string {
				e.release(fd)
				v := e.m.Mutable(fdIn(e, fd))
				e.h[fd.Number()] = &hnd{fd: fd, v: v, held: true}
				return fmt.Sprintf("valid=%v", v.Message().IsValid())
			}})
			if inner != nil {
				add(op{"h(" + name + ").Set(inner)", "Message.write-through/" + shape, true, held, func(e *env) string {
					e.h[fd.Number()].v.Message().Set(inner, sampleValue(inner, 1))
					return ""
				}})
				add(op{"h(" + name + ").Clear(inner)", "Message.write-through/" + shape, true, held, func(e *env) string {
					e.h[fd.Number()].v.Message().Clear(inner)
					return ""
				}})
			}
		default:
			al := enum.ScalarAlphabet(fd, enum.Reduced)
			for vi, v := range []protoreflect.Value{al[0], al[1]} {
				v := v
				add(op{fmt.Sprintf("Set(%s,v%d)", name, vi), "Set/" + shape, true, always, func(e *env) string {
					if fd.Kind() == protoreflect.BytesKind {
						v = protoreflect.ValueOfBytes(append([]byte(nil), v.Bytes()...))
					}
					e.m.Set(fdIn(e, fd), v)
					e.release(fd)
					return ""
				}})
			}
			// invalid call both references reject
			add(op{"Mutable(" + name + ")", "Mutable-of-scalar/" + shape, true, always, func(e *env) string {
				e.m.Mutable(fdIn(e, fd))
				return "no-panic"
			}})
		}
	}
	// mutation through the value handed to a Range callback (legal for the field being visited)
	for i := 0; i < fs.Len(); i++ {
		fd := fs.Get(i)
		curGroup = groupOf(fd)
		name := string(fd.Name())
		shape := shapeOf(fd)
		populated := func(e *env) bool { return e.m.Has(fdIn(e, fd)) }
		visit := func(e *env, f func(v protoreflect.Value)) string {
			n := 0
			e.m.Range(func(d protoreflect.FieldDescriptor, v protoreflect.Value) bool {
				if d.Number() == fd.Number() {
					n++
					f(v)
				}
				return true
			})
			e.release(fd)
			return fmt.Sprint(n)
		}
		switch {
		case fd.IsList():
			isMsg := fd.Kind() == protoreflect.MessageKind
			add(op{"Range->" + name + ".Append", "Range-callback.List.Append/" + shape, true, populated, func(e *env) string {
				return visit(e, func(v protoreflect.Value) {
					l := v.List()
					if isMsg {
						l.Append(l.NewElement())
					} else {
						l.Append(enum.ScalarAlphabet(fd, enum.Reduced)[1])
					}
				})
			}})
			add(op{"Range->" + name + ".Truncate(len-1)", "Range-callback.List.Truncate/" + shape, true, populated, func(e *env) string {
				return visit(e, func(v protoreflect.Value) { l := v.List(); l.Truncate(l.Len() - 1) })
			}})
		case fd.IsMap():
			kal := enum.ScalarAlphabet(fd.MapKey(), enum.Reduced)
			add(op{"Range->" + name + ".Clear(k1)+Set(k0)", "Range-callback.Map.Set/" + shape, true, populated, func(e *env) string {
				return visit(e, func(v protoreflect.Value) {
					mp := v.Map()
					mp.Clear(kal[1].MapKey())
					if fd.MapValue().Kind() == protoreflect.MessageKind {
						mp.Set(kal[0].MapKey(), mp.NewValue())
					} else {
						mp.Set(kal[0].MapKey(), enum.ScalarAlphabet(fd.MapValue(), enum.Reduced)[1])
					}
				})
			}})
		case fd.Kind() == protoreflect.MessageKind:
			if inner := firstScalarField(fd.Message()); inner != nil {
				add(op{"Range->" + name + ".Set(inner)", "Range-callback.Message.Set/" + shape, true, populated, func(e *env) string {
					return visit(e, func(v protoreflect.Value) { v.Message().Set(inner, sampleValue(inner, 1)) })
				}})
			}
		}
	}
	curGroup = "?unknown"
	unk := enum.UnknownAlphabet(md, enum.Reduced)[0]
	add(op{"SetUnknown(rec)", "SetUnknown", true, always, func(e *env) string {
		e.m.SetUnknown(append(protoreflect.RawFields(nil), unk...))
		return ""
	}})
	add(op{"SetUnknown(nil)", "SetUnknown", true, always, func(e *env) string { e.m.SetUnknown(nil); return "" }})
	return ops
}

// battery renders every read of the state reachable through the view.
func battery(e *env, viaSlow bool) []string {
	var out []string
	fs := e.m.Descriptor().Fields()
	for i := 0; i < fs.Len(); i++ {
		fd := fs.Get(i)
		out = append(out, "Has("+string(fd.Name())+")="+try(func() string { return fmt.Sprint(e.m.Has(fd)) }))
		out = append(out, "Get("+string(fd.Name())+")="+try(func() string { return rv(fd, e.m.Get(fd), viaSlow) }))
		out = append(out, "NewField("+string(fd.Name())+")="+try(func() string { return rv(fd, e.m.NewField(fd), viaSlow) }))
		if fd.IsList() {
			out = append(out, "Get("+string(fd.Name())+").List.Get(len)="+try(func() string {
				l := e.m.Get(fd).List()
				return rscalar(fd, l.Get(l.Len()), viaSlow)
			}))
		}
		// validity flags of what Get hands out, and reads one level below a message field (set or not)
		switch {
		case fd.IsList():
			out = append(out, "Get("+string(fd.Name())+").List.IsValid="+try(func() string { return fmt.Sprint(e.m.Get(fd).List().IsValid()) }))
		case fd.IsMap():
			out = append(out, "Get("+string(fd.Name())+").Map.IsValid="+try(func() string { return fmt.Sprint(e.m.Get(fd).Map().IsValid()) }))
		case fd.Kind() == protoreflect.MessageKind:
			out = append(out, "Get("+string(fd.Name())+").Message.IsValid="+try(func() string { return fmt.Sprint(e.m.Get(fd).Message().IsValid()) }))
			sfs := fd.Message().Fields()
			for j := 0; j < sfs.Len() && j < 12; j++ {
				g := sfs.Get(j)
				out = append(out, "Get("+string(fd.Name())+").Get("+string(g.Name())+")="+try(func() string {
					sub := e.m.Get(fd).Message()
					if viaSlow {
						sub = enum.Rewrap(sub) // the struct-reflection view of the same (possibly nil) pointer
					}
					gg := sub.Descriptor().Fields().ByNumber(g.Number())
					v := sub.Get(gg)
					valid := ""
					switch {
					case gg.IsList():
						valid = fmt.Sprintf(" valid=%v", v.List().IsValid())
					case gg.IsMap():
						valid = fmt.Sprintf(" valid=%v", v.Map().IsValid())
					case gg.Kind() == protoreflect.MessageKind:
						return fmt.Sprintf("message valid=%v has=%v", v.Message().IsValid(), sub.Has(gg))
					}
					return rv(gg, v, viaSlow) + valid
				}))
			}
		}
	}
	ods := e.m.Descriptor().Oneofs()
	for i := 0; i < ods.Len(); i++ {
		od := ods.Get(i)
		out = append(out, "WhichOneof("+string(od.Name())+")="+try(func() string {
			w := e.m.WhichOneof(od)
			if w == nil {
				return "nil"
			}
			return string(w.Name())
		}))
	}
	out = append(out, "Range="+try(func() string { return rangeSet(e.m, viaSlow) }))
	for stopAt := 1; stopAt <= 3; stopAt++ {
		stopAt := stopAt
		out = append(out, fmt.Sprintf("Range(stop-at-visit-%d)=", stopAt)+try(func() string {
			n := 0
			e.m.Range(func(protoreflect.FieldDescriptor, protoreflect.Value) bool {
				n++
				return n < stopAt
			})
			return fmt.Sprint(n)
		}))
	}
	out = append(out, "GetUnknown="+try(func() string { return fmt.Sprintf("%x", []byte(e.m.GetUnknown())) }))
	var hs []int
	for n := range e.h {
		hs = append(hs, int(n))
	}
	sort.Ints(hs)
	for _, n := range hs {
		h := e.h[protoreflect.FieldNumber(n)]
		out = append(out, fmt.Sprintf("handle(%s)=", h.fd.Name())+try(func() string {
			switch {
			case h.fd.IsList():
				return fmt.Sprintf("valid=%v %s", h.v.List().IsValid(), rv(h.fd, h.v, viaSlow))
			case h.fd.IsMap():
				return fmt.Sprintf("valid=%v %s", h.v.Map().IsValid(), rv(h.fd, h.v, viaSlow))
			}
			return rv(h.fd, h.v, viaSlow)
		}))
	}
	out = append(out, donorReads(e, viaSlow)...)
	return out
}

func donorReads(e *env, viaSlow bool) []string {
	var out []string
	var ds []int
	for n := range e.d {
		ds = append(ds, int(n))
	}
	sort.Ints(ds)
	for _, n := range ds {
		h := e.d[protoreflect.FieldNumber(n)]
		out = append(out, fmt.Sprintf("value-earlier-passed-to-Set(%s)=", h.fd.Name())+try(func() string { return rv(h.fd, h.v, viaSlow) }))
	}
	return out
}

type c08case struct {
	Type    string   `json:"type"`
	History []string `json:"history"`
}

type threeEnvs struct {
	fast, slow, dyn *env
	fastPtr         proto.Message
}

func fresh(md protoreflect.MessageDescriptor) *threeEnvs {
	fp := enum.NewGo(md)
	sp := enum.NewGo(md)
	return &threeEnvs{
		fast:    &env{m: fp.ProtoReflect(), h: map[protoreflect.FieldNumber]*hnd{}},
		slow:    &env{m: enum.Slow(sp), h: map[protoreflect.FieldNumber]*hnd{}},
		dyn:     &env{m: enum.NewDyn(md), h: map[protoreflect.FieldNumber]*hnd{}},
		fastPtr: fp,
	}
}

type stepResult struct {
	invalid   bool // an invalid call that all three views reject with a panic (judged, not extended)
	why       string
	pruned    bool   // references disagree: implementation-defined, not judged, not extended
	violation string // non-empty: fast differs from agreeing references
	oracle    string
	state     string
}

// step executes one op on the three views and judges it.
func step(t *threeEnvs, o *op, judgeState bool) stepResult {
	rs := try(func() string { return o.run(t.slow) })
	rd := try(func() string { return o.run(t.dyn) })
	rf, pv := tryP(func() string { return o.run(t.fast) })
	if rs != rd {
		return stepResult{pruned: true, why: fmt.Sprintf("%s: slow returns %s, dyn returns %s", o.class, clipS(rs), clipS(rd))}
	}
	if rf != rd {
		w := fmt.Sprintf("%s returned %s on the generated message, %s on both references", o.name, clipS(rf), clipS(rd))
		if pv != nil {
			w += fmt.Sprintf(" (panic: %v)", pv)
		}
		return stepResult{violation: w, oracle: "return"}
	}
	if rd == "PANIC" {
		// an invalid call that all three reject: the objects may be left half-modified; do not extend
		return stepResult{pruned: true, invalid: true}
	}
	if !judgeState {
		return stepResult{}
	}
	cd := enum.Canon(t.dyn.m, false)
	cs := enum.Canon(t.slow.m, true)
	if cs != cd {
		return stepResult{pruned: true, why: fmt.Sprintf("%s: states differ: slow %s, dyn %s", o.class, clipS(cs), clipS(cd))}
	}
	key := cd + "|"
	var hs []int
	for n := range t.dyn.h {
		hs = append(hs, int(n))
	}
	sort.Ints(hs)
	key += fmt.Sprint(hs)
	key += "|" + strings.Join(donorReads(t.dyn, false), ";") + "|" + strings.Join(donorReads(t.slow, true), ";")
	// state of the generated message: through its own API and through struct reflection over its struct
	cf, pf := tryP(func() string { return enum.Canon(t.fast.m, false) })
	if cf != cd {
		return stepResult{violation: fmt.Sprintf("after %s the generated message reads (through its own reflection API) as %s; the references hold %s (panic=%v)", o.name, clipS(cf), clipS(cd), pf), oracle: "state-via-api", state: key}
	}
	if c2 := try(func() string { return enum.Canon(enum.Slow(t.fastPtr), true) }); c2 != cd {
		return stepResult{violation: fmt.Sprintf("after %s the Go struct of the generated message holds %s; the references hold %s", o.name, clipS(c2), clipS(cd)), oracle: "state-via-struct", state: key}
	}
	bs := battery(t.slow, true)
	bd := battery(t.dyn, false)
	bf := battery(t.fast, false)
	for i := range bd {
		if i < len(bs) && bs[i] != bd[i] {
			continue // references disagree on this read: not judged
		}
		if i >= len(bf) || bf[i] != bd[i] {
			got := "<missing>"
			if i < len(bf) {
				got = bf[i]
			}
			name := bd[i]
			if k := strings.Index(name, "="); k > 0 {
				name = name[:k]
			}
			return stepResult{violation: fmt.Sprintf("after %s: read %s: generated %s, references %s", o.name, name, clipS(got), clipS(bd[i])), oracle: "read:" + strings.Split(name, "(")[0], state: key}
		}
	}
	bd2, e1 := proto.MarshalOptions{Deterministic: true}.Marshal(t.dyn.m.Interface())
	var bf2 []byte
	var e2 error
	if p := hz.Catch(func() { bf2, e2 = proto.MarshalOptions{Deterministic: true}.Marshal(t.fastPtr) }); p != nil || (e1 == nil) != (e2 == nil) || !bytes.Equal(bd2, bf2) {
		return stepResult{violation: fmt.Sprintf("after %s deterministic bytes differ: generated %x (err %v, panic %v), reference %x", o.name, bf2, e2, p, bd2), oracle: "bytes", state: key}
	}
	return stepResult{state: key}
}

// runHistory replays a history on fresh objects. With observe set, the generated message is also read,
// sized and marshalled after every step (reads are supposed to be pure: a cache they fill must not
// change what a later step sees).
func runHistory(md protoreflect.MessageDescriptor, ops []op, byName map[string]int, hist []int, observe bool) (*threeEnvs, bool) {
	t := fresh(md)
	if observe {
		observeFast(t)
	}
	for _, oi := range hist {
		o := &ops[oi]
		if !o.enabled(t.dyn) {
			return t, false
		}
		r := step(t, o, false)
		if r.pruned || r.violation != "" {
			return t, false
		}
		if observe {
			observeFast(t)
		}
	}
	return t, true
}

func observeFast(t *threeEnvs) {
	hz.Catch(func() {
		battery(t.fast, false)
		proto.Size(t.fastPtr)
		proto.MarshalOptions{Deterministic: true}.Marshal(t.fastPtr)
		proto.MarshalOptions{}.Marshal(t.fastPtr)
	})
}

func names(ops []op, hist []int) []string {
	var out []string
	for _, i := range hist {
		out = append(out, ops[i].name)
	}
	return out
}

type searchStats struct {
	states, transitions, pruned, traces, invalid atomic.Int64
}

// search explores histories over all operations of the type (only == "") or over the operations of one
// field / oneof group.
func search(h *hz.H, md protoreflect.MessageDescriptor, maxDepth int, st *searchStats, stateCap int64, only string) (completedDepth int) {
	ops := genOps(md)
	byName := map[string]int{}
	for i := range ops {
		byName[ops[i].name] = i
	}
	tname := string(md.FullName())
	seen := map[string]bool{}
	var mu sync.Mutex
	frontier := [][]int{{}}
	t0 := fresh(md)
	seen[enum.Canon(t0.dyn.m, false)+"|[]||"] = true
	st.states.Add(1)
	for depth := 1; depth <= maxDepth; depth++ {
		var next [][]int
		capped := false
		h.Par(int64(len(frontier)), fmt.Sprintf("%s %s depth %d", tname, only, depth), func(i int64) {
			parent := frontier[i]
			for oi := range ops {
				o := &ops[oi]
				if only != "" && groupOfOp(md, o) != only {
					continue
				}
				t, ok := runHistory(md, ops, byName, parent, false)
				if !ok {
					return // cannot happen: parents were reached without pruning; defensive
				}
				if !o.enabled(t.dyn) {
					continue
				}
				st.transitions.Add(1)
				st.traces.Add(2)
				r := step(t, o, true)
				hist := append(append([]int(nil), parent...), oi)
				if r.violation == "" && !r.pruned && len(parent) > 0 {
					// the same history with every intermediate state read, sized and marshalled
					if t2, ok2 := runHistory(md, ops, byName, parent, true); ok2 {
						if r2 := step(t2, o, true); r2.violation != "" {
							r2.violation = "(with Size/Marshal/reads of the generated message after every earlier step) " + r2.violation
							r2.oracle += "+observed-prefix"
							r = r2
						}
					}
				}
				if r.pruned {
					if r.invalid {
						st.invalid.Add(1)
					} else {
						st.pruned.Add(1)
						if h.WantNote("pruned:" + o.class) {
							h.AddExtra("pruned_example "+o.class, fmt.Sprintf("%v: %s", names(ops, hist), r.why))
						}
					}
					continue
				}
				h.Eval(true, hz.Hash("C08", tname, strings.Join(names(ops, hist), ";")))
				if r.violation != "" {
					h.ViolateMin(fmt.Sprintf("C08/%s/%s@%s", r.oracle, o.class, tname), fmt.Sprintf("history %v on %s: %s", names(ops, hist), tname, r.violation), c08case{Type: tname, History: names(ops, hist)}, len(hist))
					continue
				}
				mu.Lock()
				if !seen[r.state] {
					seen[r.state] = true
					st.states.Add(1)
					if int64(len(seen)) <= stateCap {
						next = append(next, hist)
					} else {
						capped = true
					}
				}
				mu.Unlock()
				if h.WantSample() && len(hist) >= 2 {
					h.Sample(map[string]interface{}{"type": tname, "history": names(ops, hist), "reference_state": clipS(r.state)})
				}
			}
		})
		if h.Expired() {
			return depth - 1
		}
		if capped {
			h.Cap(fmt.Sprintf("%s: state cap %d reached at depth %d", tname, stateCap, depth))
		}
		// deterministic frontier order irrespective of worker scheduling
		sort.Slice(next, func(a, b int) bool { return fmt.Sprint(next[a]) < fmt.Sprint(next[b]) })
		frontier = next
		if len(frontier) == 0 {
			// no unseen state is reachable any more: the whole reachable state space (for this alphabet) has been explored
			h.Counter("types_whose_reachable_state_space_was_exhausted_before_the_depth_bound", 1)
			return maxDepth
		}
	}
	return maxDepth
}

func runC08(h *hz.H) {
	if h.Replay != "" {
		var c c08case
		h.LoadReplay(&c)
		md := findType(c.Type)
		if md == nil {
			h.InternalError("replay: type not in this binary: " + c.Type)
			return
		}
		ops := genOps(md)
		byName := map[string]int{}
		for i := range ops {
			byName[ops[i].name] = i
		}
		var hist []int
		for _, n := range c.History {
			i, ok := byName[n]
			if !ok {
				h.InternalError("replay: unknown operation " + n)
				return
			}
			hist = append(hist, i)
		}
		for _, observe := range []bool{false, true} {
			t, ok := runHistory(md, ops, byName, hist[:len(hist)-1], observe)
			if ok {
				o := &ops[hist[len(hist)-1]]
				if r := step(t, o, true); r.violation != "" {
					h.Violate(fmt.Sprintf("C08/%s/%s@%s", r.oracle, o.class, c.Type), fmt.Sprintf("history %v (observed prefix: %v): %s", c.History, observe, r.violation), c)
					break
				}
			}
		}
		h.Eval(true, 1)
		h.Eval(true, 2)
		return
	}
	types := enum.TypesMatching(os.Getenv("VERIF_TYPES"))
	var st searchStats
	mainDepth, otherDepth, focusDepth := 3, 2, 4
	stateCap := int64(60000)
	if h.Thorough() {
		mainDepth, otherDepth, focusDepth = 5, 3, 6
		stateCap = 3000000
	}
	var notes []string
	for _, md := range types {
		d := otherDepth
		if md.FullName() == "mx.Ops" {
			d = mainDepth
		}
		if os.Getenv("VERIF_LITE") != "" {
			d = 2
		}
		if h.Thorough() && md.Fields().Len() > 30 {
			d = 2
		}
		done := search(h, md, d, &st, stateCap, "")
		notes = append(notes, fmt.Sprintf("%s: %d operations, depth %d of %d completed", md.FullName(), len(genOps(md)), done, d))
		if done < d {
			h.Cap(fmt.Sprintf("%s: depth %d not completed", md.FullName(), d))
		}
		// focused searches: histories confined to one field (or one oneof) go deeper
		if os.Getenv("VERIF_LITE") == "" {
			groups := []string{}
			seenG := map[string]bool{}
			for _, o := range genOps(md) {
				o := o
				if g := groupOfOp(md, &o); !seenG[g] && g != "?unknown" {
					seenG[g] = true
					groups = append(groups, g)
				}
			}
			okAll := true
			for _, g := range groups {
				if fdone := search(h, md, focusDepth, &st, stateCap, g); fdone < focusDepth {
					okAll = false
				}
			}
			notes = append(notes, fmt.Sprintf("%s: %d single-field/oneof searches to depth %d (all completed: %v)", md.FullName(), len(groups), focusDepth, okAll))
			if !okAll {
				h.Cap(fmt.Sprintf("%s: a focused search did not complete depth %d", md.FullName(), focusDepth))
			}
		}
	}
	h.Rep.Bounds["search"] = notes
	h.Rep.States = st.states.Load()
	h.Rep.Transitions = st.transitions.Load()
	h.Rep.Traces = st.traces.Load()
	h.AddExtra("pruned_impl_defined", st.pruned.Load())
	h.AddExtra("invalid_calls_rejected_by_all_three_views", st.invalid.Load())
	if st.states.Load() < 500 {
		h.InternalError("vacuous: fewer than 500 distinct reference states")
	}
	h.Rep.Rule = "breadth-first search (over all operations of a type to the stated depth, and over the operations of each single field / oneof to a larger depth) over histories of mutating protoreflect operations (Set with 2 values per scalar / 0-2 element lists / 0-1 entry maps / empty and filled messages, Clear, Mutable keeping a live view, SetUnknown; on a live view: Append, AppendMutable, Set, Truncate, Map.Set/Clear/Mutable, nested Set/Clear), deduplicated on (canonical reference state, set of live views, what the values earlier handed to Set read as); every transition replayed on fresh fast / slow / dyn objects, once plainly and once with the generated message read, sized and marshalled after every earlier step, and followed by the full read battery (Has, Get, NewField, WhichOneof, Range, GetUnknown, out-of-range list read, live views, values earlier handed to Set, struct state, deterministic bytes); non-trivial = every transition; distinct = hash(type, history)"
	h.Rep.Assumptions = []string{"reference models: dynamicpb and protobuf-go struct reflection over a second struct; a step is judged only when they agree with each other (otherwise counted as pruned_impl_defined and not extended)", "views whose field was Cleared/Set again (stale views) are released by the harness: their behaviour is implementation-defined in protobuf-go"}
}
