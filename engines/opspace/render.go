package main

import (
	"encoding/hex"
	"fmt"
	"sort"
	"strings"

	"github.com/cosmos/cosmos-proto/internal/zzverif/enum"
	"github.com/cosmos/cosmos-proto/internal/zzverif/hz"
	"google.golang.org/protobuf/reflect/protoreflect"
)

// Outcomes of reflection operations are rendered to strings so that the three views can be compared.
// A panic renders as "PANIC" (the text of the panic is not part of the contract).

func try(f func() string) (out string) {
	if p := hz.Catch(func() { out = f() }); p != nil {
		return "PANIC"
	}
	return out
}

func tryP(f func() string) (out string, pv interface{}) {
	if p := hz.Catch(func() { out = f() }); p != nil {
		return "PANIC", p
	}
	return out, nil
}

// rv renders a protoreflect.Value of field fd. viaSlow re-wraps generated messages into protobuf-go's
// struct reflection before looking inside them (used on the reference side only).
func rv(fd protoreflect.FieldDescriptor, v protoreflect.Value, viaSlow bool) string {
	switch {
	case fd.IsList():
		l := v.List()
		var sb strings.Builder
		fmt.Fprintf(&sb, "list{len=%d [", l.Len())
		for i := 0; i < l.Len(); i++ {
			if i > 0 {
				sb.WriteByte(',')
			}
			sb.WriteString(rscalar(fd, l.Get(i), viaSlow))
		}
		sb.WriteString("]}")
		return sb.String()
	case fd.IsMap():
		m := v.Map()
		var ents []string
		m.Range(func(k protoreflect.MapKey, mv protoreflect.Value) bool {
			ents = append(ents, rscalar(fd.MapKey(), k.Value(), viaSlow)+"=>"+rscalar(fd.MapValue(), mv, viaSlow))
			return true
		})
		sort.Strings(ents)
		return fmt.Sprintf("map{len=%d [%s]}", m.Len(), strings.Join(ents, ","))
	}
	return rscalar(fd, v, viaSlow)
}

func rscalar(fd protoreflect.FieldDescriptor, v protoreflect.Value, viaSlow bool) string {
	if !v.IsValid() {
		return "<invalid-value>"
	}
	switch fd.Kind() {
	case protoreflect.MessageKind, protoreflect.GroupKind:
		m := v.Message()
		return fmt.Sprintf("msg{valid=%v %s}", m.IsValid(), enum.Canon(m, viaSlow))
	case protoreflect.BytesKind:
		return "x" + hex.EncodeToString(v.Bytes())
	}
	var sb strings.Builder
	canonScalar(&sb, fd, v)
	return sb.String()
}

func canonScalar(sb *strings.Builder, fd protoreflect.FieldDescriptor, v protoreflect.Value) {
	// reuse enum.Canon's scalar formatting through a one-field dynamic rendering would be heavy; format here
	switch fd.Kind() {
	case protoreflect.BoolKind:
		fmt.Fprintf(sb, "%v", v.Bool())
	case protoreflect.EnumKind:
		fmt.Fprintf(sb, "e%d", v.Enum())
	case protoreflect.Int32Kind, protoreflect.Sint32Kind, protoreflect.Sfixed32Kind, protoreflect.Int64Kind, protoreflect.Sint64Kind, protoreflect.Sfixed64Kind:
		fmt.Fprintf(sb, "%d", v.Int())
	case protoreflect.Uint32Kind, protoreflect.Fixed32Kind, protoreflect.Uint64Kind, protoreflect.Fixed64Kind:
		fmt.Fprintf(sb, "u%d", v.Uint())
	case protoreflect.FloatKind, protoreflect.DoubleKind:
		fmt.Fprintf(sb, "f%x", mathBits(v.Float()))
	case protoreflect.StringKind:
		fmt.Fprintf(sb, "%q", v.String())
	default:
		fmt.Fprintf(sb, "?")
	}
}

func rangeSet(m protoreflect.Message, viaSlow bool) string {
	var fs []string
	seen := map[protoreflect.FieldNumber]int{}
	m.Range(func(fd protoreflect.FieldDescriptor, v protoreflect.Value) bool {
		seen[fd.Number()]++
		fs = append(fs, fmt.Sprintf("%d:%s", fd.Number(), rv(fd, v, viaSlow)))
		return true
	})
	sort.Strings(fs)
	for n, c := range seen {
		if c > 1 {
			fs = append(fs, fmt.Sprintf("DUPLICATE-VISIT(%d x%d)", n, c))
		}
	}
	return "range{" + strings.Join(fs, " ") + "}"
}
