package main

import (
	"bytes"
	"fmt"
	"google.golang.org/protobuf/encoding/protowire"
	"os"
	"reflect"
	"strings"

	"github.com/cosmos/cosmos-proto/internal/zzverif/enum"
	"github.com/cosmos/cosmos-proto/internal/zzverif/hz"
	"google.golang.org/protobuf/encoding/protojson"
	"google.golang.org/protobuf/encoding/prototext"
	"google.golang.org/protobuf/proto"
	"google.golang.org/protobuf/reflect/protoreflect"
	"google.golang.org/protobuf/runtime/protoiface"
	"google.golang.org/protobuf/types/dynamicpb"
)

// origin describes one way a nil / zero / empty message arises. chain is a list of singular
// message field numbers followed from the base with Get(fd).Message().
type origin struct {
	Base  string  `json:"base"` // nil | zero | new
	Chain []int32 `json:"chain"`
}

type c09case struct {
	Type     string `json:"type"`
	Origin   origin `json:"origin"`
	Op       string `json:"op"`
	Field    int32  `json:"field,omitempty"`
	Artefact string `json:"artefact,omitempty"`
	ABase    string `json:"artefact_base,omitempty"`
}

type triple struct {
	fast, slow, dyn protoreflect.Message
	readOnly        bool
}

func mkOrigin(md protoreflect.MessageDescriptor, o origin) (t triple, ok bool) {
	mi := enum.InfoByName(md.FullName())
	switch o.Base {
	case "nil":
		np := enum.NilGo(md)
		t = triple{fast: np.ProtoReflect(), slow: mi.MessageOf(np), dyn: dynamicpb.NewMessageType(md).Zero(), readOnly: true}
	case "zero":
		t = triple{fast: enum.NewGo(md).ProtoReflect().Type().Zero(), slow: mi.MessageOf(enum.NilGo(md)), dyn: dynamicpb.NewMessageType(md).Zero(), readOnly: true}
	default:
		p := enum.NewGo(md)
		t = triple{fast: p.ProtoReflect(), slow: mi.MessageOf(p), dyn: dynamicpb.NewMessage(md)}
		// "new+set<N>": a oneof currently holding member N, so that its message-typed siblings are unpopulated
		if strings.HasPrefix(o.Base, "new+set") {
			var n int
			fmt.Sscanf(o.Base, "new+set%d", &n)
			fd := md.Fields().ByNumber(protoreflect.FieldNumber(n))
			if fd == nil {
				return t, false
			}
			for _, m := range []protoreflect.Message{t.fast, t.slow, t.dyn} {
				if fd.Kind() == protoreflect.MessageKind {
					m.Set(fd, m.NewField(fd))
				} else {
					m.Set(fd, sampleValue(fd, 0))
				}
			}
		}
		// "new+emptied<N>": list / map field N grown through Mutable and emptied again in place (unpopulated by history)
		if strings.HasPrefix(o.Base, "new+emptied") {
			var n int
			fmt.Sscanf(o.Base, "new+emptied%d", &n)
			fd := md.Fields().ByNumber(protoreflect.FieldNumber(n))
			if fd == nil || !(fd.IsList() || fd.IsMap()) {
				return t, false
			}
			for _, m := range []protoreflect.Message{t.fast, t.slow, t.dyn} {
				f := fdOf(m, fd)
				if fd.IsList() {
					l := m.Mutable(f).List()
					for k := 0; k < 2; k++ {
						if fd.Kind() == protoreflect.MessageKind {
							l.Append(l.NewElement())
						} else {
							l.Append(sampleValue(fd, 0))
						}
					}
					l.Truncate(0)
				} else {
					mp := m.Mutable(f).Map()
					k := enum.ScalarAlphabet(fd.MapKey(), enum.Reduced)[1].MapKey()
					if fd.MapValue().Kind() == protoreflect.MessageKind {
						mp.Set(k, mp.NewValue())
					} else {
						mp.Set(k, sampleValue(fd.MapValue(), 0))
					}
					mp.Clear(k)
				}
			}
		}
	}
	for _, n := range o.Chain {
		fd := t.fast.Descriptor().Fields().ByNumber(protoreflect.FieldNumber(n))
		if fd == nil {
			return t, false
		}
		var nf, ns, nd protoreflect.Message
		if p := hz.Catch(func() {
			nf = t.fast.Get(fd).Message()
			ns = enum.Rewrap(t.slow.Get(fd).Message())
			nd = t.dyn.Get(t.dyn.Descriptor().Fields().ByNumber(fd.Number())).Message()
		}); p != nil {
			return t, false // the failing Get itself is reported by the op battery of the parent origin
		}
		t = triple{fast: nf, slow: ns, dyn: nd, readOnly: true}
	}
	return t, true
}

func origins(md protoreflect.MessageDescriptor, maxChain int) []origin {
	var out []origin
	var rec func(cur protoreflect.MessageDescriptor, chain []int32)
	rec = func(cur protoreflect.MessageDescriptor, chain []int32) {
		if len(chain) >= maxChain {
			return
		}
		fs := cur.Fields()
		for i := 0; i < fs.Len(); i++ {
			fd := fs.Get(i)
			if fd.Kind() != protoreflect.MessageKind || fd.IsList() || fd.IsMap() {
				continue
			}
			c := append(append([]int32(nil), chain...), int32(fd.Number()))
			for _, b := range []string{"nil", "zero", "new"} {
				out = append(out, origin{Base: b, Chain: c})
			}
			if enum.IsPulsar(fd.Message()) {
				rec(fd.Message(), c)
			}
		}
	}
	for _, b := range []string{"nil", "zero", "new"} {
		out = append(out, origin{Base: b})
	}
	rec(md, nil)
	// oneofs holding a sibling of a message-typed member
	ods := md.Oneofs()
	for i := 0; i < ods.Len(); i++ {
		od := ods.Get(i)
		if od.IsSynthetic() {
			continue
		}
		for j := 0; j < od.Fields().Len(); j++ {
			mfd := od.Fields().Get(j)
			if mfd.Kind() != protoreflect.MessageKind {
				continue
			}
			for k := 0; k < od.Fields().Len(); k++ {
				sib := od.Fields().Get(k)
				if sib.Number() == mfd.Number() {
					continue
				}
				b := fmt.Sprintf("new+set%d", sib.Number())
				out = append(out, origin{Base: b}, origin{Base: b, Chain: []int32{int32(mfd.Number())}})
				break
			}
		}
	}
	// list and map fields that were populated and emptied again in place
	for i := 0; i < md.Fields().Len(); i++ {
		if fd := md.Fields().Get(i); fd.IsList() || fd.IsMap() {
			out = append(out, origin{Base: fmt.Sprintf("new+emptied%d", fd.Number())})
		}
	}
	return out
}

type readOp struct {
	name string
	f    func(m protoreflect.Message, viaSlow bool) string
}

func fieldOps(fd protoreflect.FieldDescriptor) []readOp {
	ops := []readOp{
		{"Has", func(m protoreflect.Message, s bool) string { return fmt.Sprint(m.Has(fdOf(m, fd))) }},
		{"Get", func(m protoreflect.Message, s bool) string { return rv(fd, m.Get(fdOf(m, fd)), s) }},
	}
	switch {
	case fd.IsList():
		ops = append(ops,
			readOp{"Get.List.IsValid", func(m protoreflect.Message, s bool) string { return fmt.Sprint(m.Get(fdOf(m, fd)).List().IsValid()) }},
			readOp{"Get.List.Len", func(m protoreflect.Message, s bool) string { return fmt.Sprint(m.Get(fdOf(m, fd)).List().Len()) }},
			readOp{"Get.List.Get(0)", func(m protoreflect.Message, s bool) string {
				return rscalar(fd, m.Get(fdOf(m, fd)).List().Get(0), s)
			}},
		)
	case fd.IsMap():
		k := enum.ScalarAlphabet(fd.MapKey(), enum.Reduced)[0].MapKey()
		ops = append(ops,
			readOp{"Get.Map.IsValid", func(m protoreflect.Message, s bool) string { return fmt.Sprint(m.Get(fdOf(m, fd)).Map().IsValid()) }},
			readOp{"Get.Map.Len", func(m protoreflect.Message, s bool) string { return fmt.Sprint(m.Get(fdOf(m, fd)).Map().Len()) }},
			readOp{"Get.Map.Has(k)", func(m protoreflect.Message, s bool) string { return fmt.Sprint(m.Get(fdOf(m, fd)).Map().Has(k)) }},
			readOp{"Get.Map.Get(k)", func(m protoreflect.Message, s bool) string {
				return rscalar(fd.MapValue(), m.Get(fdOf(m, fd)).Map().Get(k), s)
			}},
			readOp{"Get.Map.Range", func(m protoreflect.Message, s bool) string {
				n := 0
				m.Get(fdOf(m, fd)).Map().Range(func(protoreflect.MapKey, protoreflect.Value) bool { n++; return true })
				return fmt.Sprint(n)
			}},
		)
	case fd.Kind() == protoreflect.MessageKind:
		ops = append(ops,
			readOp{"Get.Message.IsValid", func(m protoreflect.Message, s bool) string { return fmt.Sprint(m.Get(fdOf(m, fd)).Message().IsValid()) }},
		)
	}
	return ops
}

// fdOf maps a field descriptor onto the descriptor object the message itself uses (dynamicpb and
// the generated code share the registered descriptors, so this is the identity in practice).
func fdOf(m protoreflect.Message, fd protoreflect.FieldDescriptor) protoreflect.FieldDescriptor {
	return m.Descriptor().Fields().ByNumber(fd.Number())
}

var msgOps = []readOp{
	{"Range", func(m protoreflect.Message, s bool) string { return rangeSet(m, s) }},
	{"GetUnknown", func(m protoreflect.Message, s bool) string { return fmt.Sprintf("%x", []byte(m.GetUnknown())) }},
	{"IsValid", func(m protoreflect.Message, s bool) string { return fmt.Sprint(m.IsValid()) }},
	{"Descriptor", func(m protoreflect.Message, s bool) string { return string(m.Descriptor().FullName()) }},
	{"Type.Descriptor", func(m protoreflect.Message, s bool) string { return string(m.Type().Descriptor().FullName()) }},
	{"New.IsValid", func(m protoreflect.Message, s bool) string { return fmt.Sprint(m.New().IsValid()) }},
}

type libOp struct {
	name string
	f    func(x proto.Message, empty func() proto.Message, populated func() proto.Message) string
}

var libOps = []libOp{
	{"proto.Size", func(x proto.Message, e, p func() proto.Message) string { return fmt.Sprint(proto.Size(x)) }},
	{"proto.Marshal", func(x proto.Message, e, p func() proto.Message) string {
		b, err := proto.Marshal(x)
		return fmt.Sprintf("%x err=%v", b, err != nil)
	}},
	{"proto.Marshal(Deterministic)", func(x proto.Message, e, p func() proto.Message) string {
		b, err := proto.MarshalOptions{Deterministic: true}.Marshal(x)
		return fmt.Sprintf("%x err=%v", b, err != nil)
	}},
	{"proto.MarshalAppend", func(x proto.Message, e, p func() proto.Message) string {
		b, err := proto.MarshalOptions{}.MarshalAppend([]byte{1, 2}, x)
		return fmt.Sprintf("%x err=%v", b, err != nil)
	}},
	{"proto.Equal(x,x)", func(x proto.Message, e, p func() proto.Message) string { return fmt.Sprint(proto.Equal(x, x)) }},
	{"proto.Equal(x,empty)", func(x proto.Message, e, p func() proto.Message) string { return fmt.Sprint(proto.Equal(x, e())) }},
	{"proto.Equal(empty,x)", func(x proto.Message, e, p func() proto.Message) string { return fmt.Sprint(proto.Equal(e(), x)) }},
	{"proto.Equal(x,populated)", func(x proto.Message, e, p func() proto.Message) string { return fmt.Sprint(proto.Equal(x, p())) }},
	{"proto.Clone", func(x proto.Message, e, p func() proto.Message) string {
		c := proto.Clone(x)
		return fmt.Sprintf("valid=%v %s", c.ProtoReflect().IsValid(), enum.Canon(c.ProtoReflect(), false))
	}},
	{"proto.Merge(dst<-x)", func(x proto.Message, e, p func() proto.Message) string {
		d := p()
		proto.Merge(d, x)
		return enum.Canon(d.ProtoReflect(), false)
	}},
	{"proto.CheckInitialized", func(x proto.Message, e, p func() proto.Message) string {
		return fmt.Sprint(proto.CheckInitialized(x) != nil)
	}},
	{"protojson.Marshal", func(x proto.Message, e, p func() proto.Message) string {
		b, err := protojson.Marshal(x)
		return fmt.Sprintf("%s err=%v", strings.Join(strings.Fields(string(b)), ""), err != nil)
	}},
	{"prototext.Marshal", func(x proto.Message, e, p func() proto.Message) string {
		b, err := prototext.Marshal(x)
		return fmt.Sprintf("%s err=%v", strings.Join(strings.Fields(string(b)), " "), err != nil)
	}},
}

func populatedDyn(md protoreflect.MessageDescriptor) protoreflect.Message {
	sp := enum.NewSpace(md, enum.Opts{Top: enum.Reduced, MaxDepth: 1, NoUnk: true})
	d := enum.NewDyn(md)
	for _, sl := range sp.Slots {
		if sl.Oneof == "" && len(sl.Cands) > 0 {
			for _, c := range sl.Cands {
				if c.Rep {
					c.Apply(d)
					break
				}
			}
			if len(d.Descriptor().Fields().ByNumber(sl.FD.Number()).FullName()) > 0 && d.Has(sl.FD) {
				// two populated fields are enough
				n := 0
				d.Range(func(protoreflect.FieldDescriptor, protoreflect.Value) bool { n++; return true })
				if n >= 2 {
					break
				}
			}
		}
	}
	return d
}

func runC09Type(h *hz.H, md protoreflect.MessageDescriptor, only *c09case) {
	tname := string(md.FullName())
	maxChain := 2
	if h.Thorough() {
		maxChain = 3
	}
	popDyn := populatedDyn(md)
	for _, o := range origins(md, maxChain) {
		if only != nil && (only.Artefact != "" || fmt.Sprint(only.Origin) != fmt.Sprint(o)) {
			continue
		}
		base, ok := mkOrigin(md, o)
		if !ok {
			continue
		}
		cur := base.fast.Descriptor()
		okind := o.Base
		if len(o.Chain) > 0 {
			okind += fmt.Sprintf("+Get-chain%d", len(o.Chain))
		}
		report := func(op string, fd protoreflect.FieldDescriptor, what string) {
			c := c09case{Type: tname, Origin: o, Op: op}
			shape := ""
			if fd != nil {
				c.Field = int32(fd.Number())
				shape = "/" + shapeOf(fd)
			}
			h.Violate(fmt.Sprintf("C09/%s/%s%s@%s", okind, op, shape, cur.FullName()), what, c)
		}
		judge := func(op string, fd protoreflect.FieldDescriptor, f func(m protoreflect.Message, s bool) string) {
			t, _ := mkOrigin(md, o)
			gs := try(func() string { return f(t.slow, true) })
			gd := try(func() string { return f(t.dyn, false) })
			gf, pv := tryP(func() string { return f(t.fast, false) })
			h.Eval(true, hz.Hash("C09", tname, fmt.Sprint(o), op, fmt.Sprint(fd)))
			if gs != gd {
				h.Counter("reads_where_references_disagree_not_judged", 1)
				return
			}
			if gf != gs {
				what := fmt.Sprintf("%s on %s (origin %s %v of %s): generated returns %s, both references return %s", op, cur.FullName(), o.Base, o.Chain, tname, clipS(gf), clipS(gs))
				if pv != nil {
					what += fmt.Sprintf(" (panic: %v)", pv)
				}
				report(op, fd, what)
			}
		}
		// reads
		fs := cur.Fields()
		for i := 0; i < fs.Len(); i++ {
			fd := fs.Get(i)
			for _, op := range fieldOps(fd) {
				op := op
				judge(op.name, fd, op.f)
			}
		}
		for _, op := range msgOps {
			judge(op.name, nil, op.f)
		}
		ods := cur.Oneofs()
		for i := 0; i < ods.Len(); i++ {
			od := ods.Get(i)
			judge("WhichOneof", nil, func(m protoreflect.Message, s bool) string {
				w := m.WhichOneof(m.Descriptor().Oneofs().ByName(od.Name()))
				if w == nil {
					return "nil"
				}
				return string(w.Name())
			})
		}
		// fast-path methods called directly
		judgeMethods(h, md, o, cur, report)
		// library calls: reference = dynamicpb (an independent message with the same validity)
		for _, lop := range libOps {
			t, _ := mkOrigin(md, o)
			emptyF := func() proto.Message { return enum.NewGo(cur) }
			emptyD := func() proto.Message { return enum.NewDyn(cur) }
			popF := func() proto.Message {
				if cur.FullName() != md.FullName() {
					return enum.NewGo(cur)
				}
				return enum.BuildGo(popDyn)
			}
			popD := func() proto.Message {
				if cur.FullName() != md.FullName() {
					return enum.NewDyn(cur)
				}
				return enum.CloneDyn(popDyn).Interface()
			}
			gd := try(func() string { return lop.f(t.dyn.Interface(), emptyD, popD) })
			gf, pv := tryP(func() string { return lop.f(t.fast.Interface(), emptyF, popF) })
			h.Eval(true, hz.Hash("C09lib", tname, fmt.Sprint(o), lop.name))
			if gf != gd {
				what := fmt.Sprintf("%s on %s (origin %s %v of %s): generated gives %s, reference gives %s", lop.name, cur.FullName(), o.Base, o.Chain, tname, clipS(gf), clipS(gd))
				if pv != nil {
					what += fmt.Sprintf(" (panic: %v)", pv)
				}
				report(lop.name, nil, what)
			}
		}
		// writes into read-only values must panic (when both references panic); for a field emptied in place: writes
		// through the value Get returns for it
		emptied := 0
		if strings.HasPrefix(o.Base, "new+emptied") && len(o.Chain) == 0 {
			fmt.Sscanf(o.Base, "new+emptied%d", &emptied)
		}
		if base.readOnly && !base.dyn.IsValid() || emptied != 0 {
			for i := 0; i < fs.Len(); i++ {
				fd := fs.Get(i)
				if emptied != 0 && int(fd.Number()) != emptied {
					continue
				}
				type wop struct {
					name string
					f    func(m protoreflect.Message)
				}
				var wops []wop
				switch {
				case fd.IsList():
					wops = append(wops, wop{"Mutable", func(m protoreflect.Message) { m.Mutable(fdOf(m, fd)) }},
						wop{"Get.List.Append", func(m protoreflect.Message) {
							l := m.Get(fdOf(m, fd)).List()
							if fd.Kind() == protoreflect.MessageKind {
								l.Append(m.New().NewField(fdOf(m, fd)).List().NewElement())
							} else {
								l.Append(sampleValue(fd, 0))
							}
						}},
						wop{"Set(list)", func(m protoreflect.Message) {
							nl := m.New().NewField(fdOf(m, fd))
							m.Set(fdOf(m, fd), nl)
						}})
				case fd.IsMap():
					wops = append(wops, wop{"Mutable", func(m protoreflect.Message) { m.Mutable(fdOf(m, fd)) }},
						wop{"Get.Map.Set", func(m protoreflect.Message) {
							mp := m.Get(fdOf(m, fd)).Map()
							k := enum.ScalarAlphabet(fd.MapKey(), enum.Reduced)[1].MapKey()
							if fd.MapValue().Kind() == protoreflect.MessageKind {
								mp.Set(k, m.New().NewField(fdOf(m, fd)).Map().NewValue())
							} else {
								mp.Set(k, sampleValue(fd.MapValue(), 0))
							}
						}})
				case fd.Kind() == protoreflect.MessageKind:
					wops = append(wops, wop{"Mutable", func(m protoreflect.Message) { m.Mutable(fdOf(m, fd)) }},
						wop{"Set(message)", func(m protoreflect.Message) { m.Set(fdOf(m, fd), m.New().NewField(fdOf(m, fd))) }})
				default:
					wops = append(wops, wop{"Set(scalar)", func(m protoreflect.Message) { m.Set(fdOf(m, fd), sampleValue(fd, 0)) }})
				}
				for _, w := range wops {
					if emptied != 0 && !strings.HasPrefix(w.name, "Get.") {
						continue
					}
					t, _ := mkOrigin(md, o)
					ps := hz.Catch(func() { w.f(t.slow) })
					pd := hz.Catch(func() { w.f(t.dyn) })
					pf := hz.Catch(func() { w.f(t.fast) })
					h.Eval(true, hz.Hash("C09w", tname, fmt.Sprint(o), w.name, fmt.Sprint(fd.Number())))
					if ps == nil || pd == nil {
						h.Counter("writes_where_a_reference_does_not_panic_not_judged", 1)
						continue
					}
					if pf == nil {
						report("write:"+w.name, fd, fmt.Sprintf("%s of field %s on the read-only %s (origin %s %v of %s) did not panic (both references panic): the store is silently dropped or lands in shared state", w.name, fd.Name(), cur.FullName(), o.Base, o.Chain, tname))
					}
				}
			}
			if emptied != 0 {
				continue
			}
			t, _ := mkOrigin(md, o)
			ps := hz.Catch(func() { t.slow.SetUnknown(protoreflect.RawFields{0xc0, 0x3e, 0x01}) })
			pd := hz.Catch(func() { t.dyn.SetUnknown(protoreflect.RawFields{0xc0, 0x3e, 0x01}) })
			pf := hz.Catch(func() { t.fast.SetUnknown(protoreflect.RawFields{0xc0, 0x3e, 0x01}) })
			if ps != nil && pd != nil && pf == nil {
				report("write:SetUnknown", nil, fmt.Sprintf("SetUnknown on the read-only %s (origin %s %v of %s) did not panic", cur.FullName(), o.Base, o.Chain, tname))
			}
		}
	}
	runArtefacts(h, md, only)
}

func judgeMethods(h *hz.H, md protoreflect.MessageDescriptor, o origin, cur protoreflect.MessageDescriptor, report func(op string, fd protoreflect.FieldDescriptor, what string)) {
	t, _ := mkOrigin(md, o)
	var sz int
	var out []byte
	var err error
	p := hz.Catch(func() {
		meth := t.fast.ProtoMethods()
		if meth == nil {
			return
		}
		sz = meth.Size(protoiface.SizeInput{Message: t.fast}).Size
		var mo protoiface.MarshalOutput
		mo, err = meth.Marshal(protoiface.MarshalInput{Message: t.fast, Buf: []byte{7}})
		out = mo.Buf
	})
	ref, _ := proto.MarshalOptions{Deterministic: true}.Marshal(t.dyn.Interface())
	if p != nil || err != nil || sz != len(ref) || !bytes.Equal(out, append([]byte{7}, ref...)) {
		report("ProtoMethods.Size/Marshal", nil, fmt.Sprintf("fast-path Size/Marshal on %s (origin %s %v): panic=%v err=%v size=%d buf=%x; want size %d and bytes 07%x", cur.FullName(), o.Base, o.Chain, p, err, sz, out, len(ref), ref))
	}
}

func clipS(s string) string {
	if len(s) > 200 {
		return s[:200] + "…"
	}
	return s
}

func shapeOf(fd protoreflect.FieldDescriptor) string {
	s := fd.Kind().String()
	switch {
	case fd.IsMap():
		s = "map<" + fd.MapKey().Kind().String() + "," + fd.MapValue().Kind().String() + ">"
	case fd.IsList():
		s += "/list"
	}
	if od := fd.ContainingOneof(); od != nil && !od.IsSynthetic() {
		s += "/oneof"
	}
	return s
}

// ---- nil artefacts inside a struct ------------------------------------------------------------

type artefact struct {
	name  string
	fd    protoreflect.FieldDescriptor
	apply func(p proto.Message) bool
}

func artefactsOf(md protoreflect.MessageDescriptor) []artefact {
	var out []artefact
	fs := md.Fields()
	for i := 0; i < fs.Len(); i++ {
		fd := fs.Get(i)
		isMsg := fd.Kind() == protoreflect.MessageKind
		inOneof := fd.ContainingOneof() != nil && !fd.ContainingOneof().IsSynthetic()
		switch {
		case fd.IsList() && isMsg:
			out = append(out, artefact{"list[nil]", fd, func(p proto.Message) bool {
				f := structFieldFor(p, fd)
				if !f.IsValid() {
					return false
				}
				f.Set(reflect.MakeSlice(f.Type(), 1, 1))
				return true
			}}, artefact{"list[{x},nil]", fd, func(p proto.Message) bool {
				return listWithNil(p, fd, 2, 0)
			}}, artefact{"list[nil,{x}]", fd, func(p proto.Message) bool {
				return listWithNil(p, fd, 2, 1)
			}}, artefact{"list[{x},nil,{x}]", fd, func(p proto.Message) bool {
				return listWithNil(p, fd, 3, 0, 2)
			}}, artefact{"list[{},nil]", fd, func(p proto.Message) bool {
				f := structFieldFor(p, fd)
				if !f.IsValid() {
					return false
				}
				s := reflect.MakeSlice(f.Type(), 2, 2)
				s.Index(0).Set(reflect.New(f.Type().Elem().Elem()))
				f.Set(s)
				return true
			}})
		case fd.IsMap() && fd.MapValue().Kind() == protoreflect.MessageKind:
			out = append(out, artefact{"map{k:nil}", fd, func(p proto.Message) bool {
				f := structFieldFor(p, fd)
				if !f.IsValid() {
					return false
				}
				m := reflect.MakeMap(f.Type())
				m.SetMapIndex(reflect.Zero(f.Type().Key()), reflect.Zero(f.Type().Elem()))
				f.Set(m)
				return true
			}})
			if fd.MapKey().Kind() == protoreflect.StringKind {
				// a nil value under keys whose length puts the entry at a length-prefix boundary (entry = key + 4 bytes)
				for _, kl := range []int{122, 123, 124, 16377, 16378} {
					kl := kl
					out = append(out, artefact{fmt.Sprintf("map{key of %d bytes:nil}", kl), fd, func(p proto.Message) bool {
						return enum.InjectNilKeyLen(p, int(fd.Number()), kl)
					}})
				}
			}
		case inOneof:
			if isMsg {
				out = append(out, artefact{"oneof-wrapper{nil-message}", fd, func(p proto.Message) bool {
					f := oneofFieldFor(p, fd.ContainingOneof())
					wt := wrapperTypeFor(p, fd)
					if !f.IsValid() || wt == nil {
						return false
					}
					f.Set(reflect.New(wt.Elem()))
					return true
				}})
			}
			if fd.ContainingOneof().Fields().Get(0).Number() == fd.Number() {
				out = append(out, artefact{"oneof-typed-nil-wrapper", fd, func(p proto.Message) bool {
					f := oneofFieldFor(p, fd.ContainingOneof())
					wt := wrapperTypeFor(p, fd)
					if !f.IsValid() || wt == nil {
						return false
					}
					f.Set(reflect.Zero(wt))
					return true
				}})
			}
		}
	}
	return out
}

// artefactMessage: the message type held by the artefact's field (list element, map value, oneof member).
func artefactMessage(fd protoreflect.FieldDescriptor) protoreflect.MessageDescriptor {
	if fd.IsMap() {
		return fd.MapValue().Message()
	}
	return fd.Message()
}

func scalarOf(md protoreflect.MessageDescriptor) protoreflect.FieldDescriptor {
	if md == nil {
		return nil
	}
	return firstScalarField(md)
}

// listWithNil stores an n-element list whose elements at the given indexes are messages with one field
// populated and whose other elements are nil.
func listWithNil(p proto.Message, fd protoreflect.FieldDescriptor, n int, filled ...int) bool {
	f := structFieldFor(p, fd)
	if !f.IsValid() {
		return false
	}
	s := reflect.MakeSlice(f.Type(), n, n)
	for _, i := range filled {
		e := reflect.New(f.Type().Elem().Elem())
		if inner := firstScalarField(fd.Message()); inner != nil {
			e.Interface().(proto.Message).ProtoReflect().Set(inner, sampleValue(inner, 0))
		}
		s.Index(i).Set(e)
	}
	f.Set(s)
	return true
}

// fullDyn populates every field (one member per oneof) with its first representative candidate.
func fullDyn(md protoreflect.MessageDescriptor) protoreflect.Message {
	sp := enum.NewSpace(md, enum.Opts{Top: enum.Reduced, MaxDepth: 1, NoUnk: true})
	d := enum.NewDyn(md)
	seenOneof := map[string]bool{}
	for _, sl := range sp.Slots {
		if sl.Oneof != "" {
			if seenOneof[sl.Oneof] {
				continue
			}
			seenOneof[sl.Oneof] = true
		}
		for _, c := range sl.Cands {
			if c.Rep {
				c.Apply(d)
				break
			}
		}
	}
	return d
}

func runArtefacts(h *hz.H, md protoreflect.MessageDescriptor, only *c09case) {
	for _, base := range []string{"", "all-other-fields-populated"} {
		if only != nil && only.ABase != base {
			continue
		}
		runArtefactsOn(h, md, only, base)
	}
}

func runArtefactsOn(h *hz.H, md protoreflect.MessageDescriptor, only *c09case, base string) {
	tname := string(md.FullName())
	mi := enum.InfoByName(md.FullName())
	var full protoreflect.Message
	suffix := ""
	if base != "" {
		full = fullDyn(md)
		suffix = " (" + base + ")"
	}
	for _, a := range artefactsOf(md) {
		a := a
		if only != nil && (only.Artefact != a.name || only.Field != int32(a.fd.Number())) {
			continue
		}
		if base != "" && strings.HasPrefix(a.name, "oneof-typed-nil") {
			continue
		}
		aname := a.name + suffix
		mk := func() (proto.Message, bool) {
			p := enum.NewGo(md)
			if full != nil {
				p = enum.BuildGo(full)
			}
			ok := false
			if pv := hz.Catch(func() { ok = a.apply(p) }); pv != nil {
				return nil, false
			}
			return p, ok
		}
		if _, ok := mk(); !ok {
			h.Counter("artefacts_not_constructible", 1)
			continue
		}
		notJudged := a.name == "oneof-typed-nil-wrapper" // a nil *wrapper* pointer is not among the states the statement lists
		report := func(op, what string) {
			if notJudged {
				h.Counter("not_judged_differences_for_typed_nil_oneof_wrapper", 1)
				if h.WantNote("typednil") {
					h.AddExtra("not_judged_example_typed_nil_wrapper", what)
				}
				return
			}
			h.Violate(fmt.Sprintf("C09/artefact:%s/%s/%s@%s", aname, op, shapeOf(a.fd), tname), what, c09case{Type: tname, Op: op, Field: int32(a.fd.Number()), Artefact: a.name, ABase: base, Origin: origin{Base: "artefact"}})
		}
		cmp := func(op string, ff func(m protoreflect.Message, s bool) string) {
			p1, _ := mk()
			p2, _ := mk()
			ref := try(func() string { return ff(mi.MessageOf(p1), true) })
			got, pv := tryP(func() string { return ff(p2.ProtoReflect(), false) })
			h.Eval(true, hz.Hash("C09a", tname, aname, fmt.Sprint(a.fd.Number()), op))
			if ref == "PANIC" {
				h.Counter("artefact_ops_where_the_reference_panics_not_judged", 1)
				return
			}
			if got != ref {
				w := fmt.Sprintf("%s on %s with %s in field %s: generated gives %s, protobuf-go's struct reflection over the same struct gives %s", op, tname, aname, a.fd.Name(), clipS(got), clipS(ref))
				if pv != nil {
					w += fmt.Sprintf(" (panic: %v)", pv)
				}
				report(op, w)
			}
		}
		cmp("Has", func(m protoreflect.Message, s bool) string { return fmt.Sprint(m.Has(fdOf(m, a.fd))) })
		cmp("Get", func(m protoreflect.Message, s bool) string { return rv(a.fd, m.Get(fdOf(m, a.fd)), s) })
		cmp("Range", func(m protoreflect.Message, s bool) string { return rangeSet(m, s) })
		switch {
		case a.fd.IsMap():
			k0 := enum.ScalarAlphabet(a.fd.MapKey(), enum.Reduced)[0].MapKey() // the artefact stores its nil value under the zero key
			cmp("Get.Map.Has(k)", func(m protoreflect.Message, s bool) string { return fmt.Sprint(m.Get(fdOf(m, a.fd)).Map().Has(k0)) })
			cmp("Get.Map.Get(k)", func(m protoreflect.Message, s bool) string {
				return rscalar(a.fd.MapValue(), m.Get(fdOf(m, a.fd)).Map().Get(k0), s)
			})
			cmp("Get.Map.Len", func(m protoreflect.Message, s bool) string { return fmt.Sprint(m.Get(fdOf(m, a.fd)).Map().Len()) })
		case a.fd.IsList():
			cmp("Get.List.Len", func(m protoreflect.Message, s bool) string { return fmt.Sprint(m.Get(fdOf(m, a.fd)).List().Len()) })
			cmp("Get.List.Get(last)", func(m protoreflect.Message, s bool) string {
				l := m.Get(fdOf(m, a.fd)).List()
				return rscalar(a.fd, l.Get(l.Len()-1), s)
			})
		}
		if od := a.fd.ContainingOneof(); od != nil {
			cmp("WhichOneof", func(m protoreflect.Message, s bool) string {
				w := m.WhichOneof(m.Descriptor().Oneofs().ByName(od.Name()))
				if w == nil {
					return "nil"
				}
				return string(w.Name())
			})
		}
		// codec: reference = protobuf-go's table-driven codec over the same struct
		p1, _ := mk()
		var refB []byte
		var refSize int
		refP := hz.Catch(func() {
			so := mi.MessageOf(p1)
			refSize = proto.MarshalOptions{}.Size(so.Interface())
			mo, err := proto.MarshalOptions{Deterministic: true, AllowPartial: true}.MarshalState(protoiface.MarshalInput{Message: so})
			if err != nil {
				panic(err)
			}
			refB = mo.Buf
			_ = refSize
		})
		p2, _ := mk()
		var gotB []byte
		var gotSize int
		var gerr error
		gotP := hz.Catch(func() {
			gotSize = proto.Size(p2)
			gotB, gerr = proto.MarshalOptions{Deterministic: true}.Marshal(p2)
		})
		h.Eval(true, hz.Hash("C09a", tname, aname, fmt.Sprint(a.fd.Number()), "codec"))
		if refP == nil {
			if gotP != nil || gerr != nil {
				report("Size/Marshal", fmt.Sprintf("proto.Size/Marshal on %s with %s in field %s: panic=%v err=%v; the reference codec over the same struct encodes it as %x", tname, aname, a.fd.Name(), gotP, gerr, refB))
			} else if !bytes.Equal(gotB, refB) || gotSize != len(gotB) {
				report("Size/Marshal", fmt.Sprintf("%s with %s in field %s: generated size=%d bytes=%x, reference bytes=%x", tname, aname, a.fd.Name(), gotSize, gotB, refB))
			}
			// a merging decode that carries the artefact's field: data must end up in the message as with the reference
			// decoder over the same struct (never dropped into a nil message)
			if inner := scalarOf(artefactMessage(a.fd)); inner != nil {
				sub := enum.NewDyn(artefactMessage(a.fd))
				sub.Set(inner, sampleValue(inner, 1))
				subEnc, _ := proto.Marshal(sub.Interface())
				var stream []byte
				if a.fd.IsMap() {
					k0 := enum.ScalarAlphabet(a.fd.MapKey(), enum.Reduced)[0]
					kd := enum.NewDyn(a.fd.Message())
					kd.Set(a.fd.MapKey(), k0)
					ent, _ := proto.Marshal(kd.Interface()) // key record only (empty for the zero key)
					ent = protowire.AppendBytes(protowire.AppendTag(ent, 2, protowire.BytesType), subEnc)
					stream = protowire.AppendBytes(protowire.AppendTag(nil, a.fd.Number(), protowire.BytesType), ent)
				} else {
					stream = protowire.AppendBytes(protowire.AppendTag(nil, a.fd.Number(), protowire.BytesType), subEnc)
				}
				r1, _ := mk()
				r2, _ := mk()
				var refC, gotC string
				rp := hz.Catch(func() {
					if _, err := (proto.UnmarshalOptions{Merge: true}).UnmarshalState(protoiface.UnmarshalInput{Message: mi.MessageOf(r1), Buf: stream}); err != nil {
						panic(err)
					}
					refC = enum.Canon(mi.MessageOf(r1), true)
				})
				h.Eval(true, hz.Hash("C09a", tname, aname, fmt.Sprint(a.fd.Number()), "merge-decode"))
				if rp == nil {
					gp := hz.Catch(func() {
						if err := (proto.UnmarshalOptions{Merge: true}).Unmarshal(append([]byte(nil), stream...), r2); err != nil {
							panic(err)
						}
						gotC = enum.Canon(mi.MessageOf(r2), true)
					})
					if gp != nil || gotC != refC {
						report("Merge-decode", fmt.Sprintf("merging decode of %x into %s with %s in field %s: generated decoder leaves %s (panic/err %v); the reference decoder over the same struct leaves %s", stream, tname, aname, a.fd.Name(), clipS(gotC), gp, clipS(refC)))
					}
				}
			}
			// generic library calls must accept what the reference accepts
			// a nil element / value reads as an empty message: two such messages are equal, and so is a clone
			{
				x, _ := mk()
				y, _ := mk()
				var e1, e2, e3 bool
				if pv := hz.Catch(func() { e1 = proto.Equal(x, y); e2 = proto.Equal(y, x); e3 = proto.Equal(proto.Clone(x), x) }); pv == nil && !(e1 && e2 && e3) {
					report("proto.Equal-verdict", fmt.Sprintf("two %s messages holding %s in field %s: Equal(x,y)=%v Equal(y,x)=%v Equal(Clone(x),x)=%v; a nil element reads as an empty message, so all must be true", tname, aname, a.fd.Name(), e1, e2, e3))
				}
			}
			for _, l := range []struct {
				name string
				f    func(x proto.Message)
			}{
				{"proto.Equal(x,x')", func(x proto.Message) {
					y, _ := mk()
					proto.Equal(x, y)
				}},
				{"proto.Clone", func(x proto.Message) { proto.Clone(x) }},
				{"proto.Merge(dst<-x)", func(x proto.Message) { proto.Merge(enum.NewGo(md), x) }},
				{"protojson.Marshal", func(x proto.Message) { protojson.Marshal(x) }},
				{"prototext.Marshal", func(x proto.Message) { prototext.Marshal(x) }},
				{"String", func(x proto.Message) {
					if s, ok := x.(fmt.Stringer); ok {
						_ = s.String()
					}
				}},
			} {
				x, _ := mk()
				h.Eval(true, hz.Hash("C09a", tname, aname, fmt.Sprint(a.fd.Number()), l.name))
				if pv := hz.Catch(func() { l.f(x) }); pv != nil {
					report(l.name, fmt.Sprintf("%s on %s with %s in field %s panicked: %v", l.name, tname, aname, a.fd.Name(), pv))
				}
			}
		} else {
			h.Counter("artefact_ops_where_the_reference_panics_not_judged", 1)
		}
	}
}

func runC09(h *hz.H) {
	if h.Replay != "" {
		var c c09case
		h.LoadReplay(&c)
		md := findType(c.Type)
		if md == nil {
			h.InternalError("replay: type not in this binary: " + c.Type)
			return
		}
		runC09Type(h, md, &c)
		h.Eval(true, 1)
		h.Eval(true, 2)
		return
	}
	types := enum.TypesMatching(os.Getenv("VERIF_TYPES"))
	if len(types) < 5 {
		h.InternalError("vacuous: too few pulsar types")
		return
	}
	var names []string
	for _, md := range types {
		names = append(names, fmt.Sprintf("%s: %d origins, %d artefacts", md.FullName(), len(origins(md, 2)), len(artefactsOf(md))))
	}
	h.Rep.Bounds["types"] = names
	h.Par(int64(len(types)), "types", func(i int64) { runC09Type(h, types[i], nil) })
	h.Sample(map[string]interface{}{"type": "A", "origin": origin{Base: "nil"}, "ops": "Has/Get/List+Map sub-reads of every field, Range, WhichOneof, GetUnknown, IsValid, Descriptor, Type, New, ProtoMethods Size/Marshal, 13 library calls, writes that must panic"})
	h.Sample(map[string]interface{}{"type": "A", "artefact": "list[nil] in LIST", "ops": "Has/Get/Range/WhichOneof vs struct reflection; Size/Marshal vs table-driven codec; Equal/Clone/Merge/JSON/text/String must not panic"})
	h.Rep.Rule = "for every pulsar type: origins = {nil pointer, Type().Zero(), new(T)} and every chain (length <=2, thorough 3) of Get(unset message field).Message() from them; every read op on every field (incl. List/Map sub-reads), message-level reads, 13 generic library calls, and every store op on the read-only ones; plus nil artefacts built with reflect (nil list element, nil map value, oneof wrapper holding nil, typed-nil wrapper) x reads/codec/library calls; finite and complete for the types present; every case non-trivial; distinct = hash(type, origin or artefact, op, field)"
	h.Rep.Assumptions = []string{"references: protobuf-go struct reflection (MessageInfo.MessageOf) over the same pointer and dynamicpb Zero()/NewMessage; a read is judged only when both references agree, a store must panic only when both references panic", "for nil artefacts (not representable in dynamicpb) the reference is protobuf-go's struct reflection and table-driven codec over the same struct; cases where that reference itself panics are not judged"}
}
