package main

import (
	"math"
	"reflect"
	"strconv"
	"strings"

	"github.com/cosmos/cosmos-proto/internal/zzverif/enum"
	"google.golang.org/protobuf/proto"
	"google.golang.org/protobuf/reflect/protoreflect"
)

func mathBits(f float64) uint64 { return math.Float64bits(f) }

func findType(name string) protoreflect.MessageDescriptor {
	for _, md := range enum.PulsarTypes() {
		if string(md.FullName()) == name {
			return md
		}
	}
	return nil
}

// structFieldFor locates the Go struct field holding fd (non-oneof) by its protobuf tag.
func structFieldFor(p proto.Message, fd protoreflect.FieldDescriptor) reflect.Value {
	v := reflect.ValueOf(p).Elem()
	t := v.Type()
	for i := 0; i < t.NumField(); i++ {
		tag := t.Field(i).Tag.Get("protobuf")
		if tag == "" {
			continue
		}
		parts := strings.Split(tag, ",")
		if len(parts) >= 2 {
			if n, err := strconv.Atoi(parts[1]); err == nil && protoreflect.FieldNumber(n) == fd.Number() {
				return v.Field(i)
			}
		}
	}
	return reflect.Value{}
}

func oneofFieldFor(p proto.Message, od protoreflect.OneofDescriptor) reflect.Value {
	v := reflect.ValueOf(p).Elem()
	t := v.Type()
	for i := 0; i < t.NumField(); i++ {
		if t.Field(i).Tag.Get("protobuf_oneof") == string(od.Name()) {
			return v.Field(i)
		}
	}
	return reflect.Value{}
}

// wrapperTypeFor returns the *Wrapper struct type of a oneof member.
func wrapperTypeFor(p proto.Message, fd protoreflect.FieldDescriptor) reflect.Type {
	mi := enum.InfoOf(p)
	for _, w := range mi.OneofWrappers {
		wt := reflect.TypeOf(w)
		if wt.Kind() != reflect.Ptr || wt.Elem().NumField() < 1 {
			continue
		}
		tag := wt.Elem().Field(0).Tag.Get("protobuf")
		parts := strings.Split(tag, ",")
		if len(parts) >= 2 {
			if n, err := strconv.Atoi(parts[1]); err == nil && protoreflect.FieldNumber(n) == fd.Number() {
				return wt
			}
		}
	}
	return nil
}

func sampleValue(fd protoreflect.FieldDescriptor, alt int) protoreflect.Value {
	al := enum.ScalarAlphabet(fd, enum.Reduced)
	return al[(1+alt)%len(al)]
}
