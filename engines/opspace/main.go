// Engine "opspace": C09 (nil / read-only empty values) and C08 (explicit-state BFS over reflection
// operation histories against reference models).
package main

import (
	"fmt"
	"os"

	"github.com/cosmos/cosmos-proto/internal/zzverif/hz"
)

func main() {
	h := hz.New()
	switch h.Prop {
	case "C09":
		runC09(h)
	case "C08":
		runC08(h)
	default:
		fmt.Fprintln(os.Stderr, "INTERNAL: engine opspace does not serve", h.Prop)
		os.Exit(2)
	}
	h.Finish()
}
