// Package enum is the shared value-space library: type discovery, the three views of a value
// (fast = code under test, slow = protobuf-go struct reflection over the same memory, dyn = dynamicpb),
// alphabets, bounded enumeration of message values, canonical observation, the spec encoder and
// the deep struct snapshot.
package enum

import (
	"fmt"
	"reflect"
	"sort"
	"strings"
	"sync"

	"google.golang.org/protobuf/proto"
	"google.golang.org/protobuf/reflect/protoreflect"
	"google.golang.org/protobuf/reflect/protoregistry"
	"google.golang.org/protobuf/runtime/protoimpl"
	"google.golang.org/protobuf/types/dynamicpb"
)

var (
	regOnce  sync.Once
	byGoType map[reflect.Type]*protoimpl.MessageInfo
	byName   map[protoreflect.FullName]*protoimpl.MessageInfo
)

func loadRegistry() {
	regOnce.Do(func() {
		byGoType = map[reflect.Type]*protoimpl.MessageInfo{}
		byName = map[protoreflect.FullName]*protoimpl.MessageInfo{}
		protoregistry.GlobalTypes.RangeMessages(func(mt protoreflect.MessageType) bool {
			if mi, ok := mt.(*protoimpl.MessageInfo); ok && mi.GoReflectType != nil {
				byGoType[mi.GoReflectType] = mi
				byName[mi.Desc.FullName()] = mi
			}
			return true
		})
	})
}

// InfoByName returns protobuf-go's table/struct driven MessageInfo registered for a message name.
func InfoByName(n protoreflect.FullName) *protoimpl.MessageInfo {
	loadRegistry()
	return byName[n]
}

// InfoOf returns the MessageInfo for the Go type of p (nil if p is not a registered generated type).
func InfoOf(p proto.Message) *protoimpl.MessageInfo {
	loadRegistry()
	return byGoType[reflect.TypeOf(p)]
}

// NewGo allocates a zero Go struct of the generated type registered under the descriptor's name.
func NewGo(md protoreflect.MessageDescriptor) proto.Message {
	mi := InfoByName(md.FullName())
	if mi == nil {
		panic(fmt.Sprintf("enum: no generated Go type registered for %s", md.FullName()))
	}
	return reflect.New(mi.GoReflectType.Elem()).Interface().(proto.Message)
}

// NilGo returns the typed nil pointer of the generated type.
func NilGo(md protoreflect.MessageDescriptor) proto.Message {
	mi := InfoByName(md.FullName())
	return reflect.Zero(mi.GoReflectType).Interface().(proto.Message)
}

// Slow is protobuf-go's own struct-based reflection over the same Go pointer (independent of the
// pulsar fast-reflection code at this level). dynamicpb messages are returned unchanged.
func Slow(p proto.Message) protoreflect.Message {
	if d, ok := p.(*dynamicpb.Message); ok {
		return d
	}
	mi := InfoOf(p)
	if mi == nil {
		panic(fmt.Sprintf("enum: %T is not a registered generated type", p))
	}
	return mi.MessageOf(p)
}

// Rewrap turns a protoreflect.Message handed out by some view into the slow view of the same Go
// pointer (dynamicpb values are kept). Used when walking nested values.
func Rewrap(m protoreflect.Message) protoreflect.Message {
	if d, ok := m.(*dynamicpb.Message); ok {
		return d
	}
	p := m.Interface()
	if d, ok := p.(*dynamicpb.Message); ok {
		return d
	}
	if mi := InfoOf(p); mi != nil {
		return mi.MessageOf(p)
	}
	return m
}

// IsPulsar reports whether the Go type registered for md implements fast reflection.
func IsPulsar(md protoreflect.MessageDescriptor) bool {
	mi := InfoByName(md.FullName())
	if mi == nil {
		return false
	}
	p := reflect.New(mi.GoReflectType.Elem()).Interface().(proto.Message)
	t := reflect.TypeOf(p.ProtoReflect())
	for t.Kind() == reflect.Ptr {
		t = t.Elem()
	}
	return strings.HasPrefix(t.Name(), "fastReflection_")
}

// PulsarTypes lists every registered message descriptor whose Go type is pulsar-generated
// (checked-in and freshly generated alike), sorted by full name. Map entries are skipped.
func PulsarTypes() []protoreflect.MessageDescriptor {
	loadRegistry()
	var out []protoreflect.MessageDescriptor
	for n, mi := range byName {
		if mi.Desc.IsMapEntry() {
			continue
		}
		if IsPulsar(mi.Desc) {
			_ = n
			out = append(out, mi.Desc)
		}
	}
	sort.Slice(out, func(i, j int) bool { return out[i].FullName() < out[j].FullName() })
	return out
}

// TypesMatching filters PulsarTypes by a comma separated list of name prefixes ("" = all).
func TypesMatching(prefixes string) []protoreflect.MessageDescriptor {
	all := PulsarTypes()
	if prefixes == "" {
		return all
	}
	var out []protoreflect.MessageDescriptor
	for _, md := range all {
		for _, p := range strings.Split(prefixes, ",") {
			if strings.HasPrefix(string(md.FullName()), p) {
				out = append(out, md)
				break
			}
		}
	}
	return out
}

// Fast is the view under test.
func Fast(p proto.Message) protoreflect.Message { return p.ProtoReflect() }

// NewDyn creates an empty dynamicpb message for md.
func NewDyn(md protoreflect.MessageDescriptor) *dynamicpb.Message { return dynamicpb.NewMessage(md) }
