package enum

import (
	"math"
	"sort"

	"google.golang.org/protobuf/encoding/protowire"
	"google.golang.org/protobuf/reflect/protoreflect"
)

// SpecEncode is an independent, deliberately boring encoder written from the property's text:
// non-oneof fields in ascending number order, then oneof members in oneof declaration order, then
// unknown fields; map entries sorted by key, key and value always present; repeated scalars packed
// unless declared unpacked; minimal varints; unpopulated (proto3 default) fields omitted.
// It walks any protoreflect.Message (the engines hand it the dynamicpb reference value).
func SpecEncode(m protoreflect.Message) []byte {
	return specAppend(nil, m)
}

func specAppend(b []byte, m protoreflect.Message) []byte {
	md := m.Descriptor()
	var plain, inOneof []protoreflect.FieldDescriptor
	fs := md.Fields()
	for i := 0; i < fs.Len(); i++ {
		fd := fs.Get(i)
		if !m.Has(fd) {
			continue
		}
		if od := fd.ContainingOneof(); od != nil && !od.IsSynthetic() {
			inOneof = append(inOneof, fd)
		} else {
			plain = append(plain, fd)
		}
	}
	sort.Slice(plain, func(i, j int) bool { return plain[i].Number() < plain[j].Number() })
	sort.Slice(inOneof, func(i, j int) bool {
		a, c := inOneof[i].ContainingOneof().Index(), inOneof[j].ContainingOneof().Index()
		if a != c {
			return a < c
		}
		return inOneof[i].Number() < inOneof[j].Number()
	})
	for _, fd := range append(plain, inOneof...) {
		b = specField(b, fd, m.Get(fd))
	}
	return append(b, m.GetUnknown()...)
}

func wireTypeOf(k protoreflect.Kind) protowire.Type {
	switch k {
	case protoreflect.Fixed32Kind, protoreflect.Sfixed32Kind, protoreflect.FloatKind:
		return protowire.Fixed32Type
	case protoreflect.Fixed64Kind, protoreflect.Sfixed64Kind, protoreflect.DoubleKind:
		return protowire.Fixed64Type
	case protoreflect.StringKind, protoreflect.BytesKind, protoreflect.MessageKind:
		return protowire.BytesType
	case protoreflect.GroupKind:
		return protowire.StartGroupType
	}
	return protowire.VarintType
}

func specScalar(b []byte, fd protoreflect.FieldDescriptor, v protoreflect.Value) []byte {
	switch fd.Kind() {
	case protoreflect.BoolKind:
		if v.Bool() {
			return append(b, 1)
		}
		return append(b, 0)
	case protoreflect.EnumKind:
		return protowire.AppendVarint(b, uint64(int64(v.Enum())))
	case protoreflect.Int32Kind, protoreflect.Int64Kind:
		return protowire.AppendVarint(b, uint64(v.Int()))
	case protoreflect.Sint32Kind, protoreflect.Sint64Kind:
		return protowire.AppendVarint(b, protowire.EncodeZigZag(v.Int()))
	case protoreflect.Uint32Kind, protoreflect.Uint64Kind:
		return protowire.AppendVarint(b, v.Uint())
	case protoreflect.Sfixed32Kind:
		return protowire.AppendFixed32(b, uint32(int32(v.Int())))
	case protoreflect.Fixed32Kind:
		return protowire.AppendFixed32(b, uint32(v.Uint()))
	case protoreflect.FloatKind:
		return protowire.AppendFixed32(b, math.Float32bits(float32(v.Float())))
	case protoreflect.Sfixed64Kind:
		return protowire.AppendFixed64(b, uint64(v.Int()))
	case protoreflect.Fixed64Kind:
		return protowire.AppendFixed64(b, v.Uint())
	case protoreflect.DoubleKind:
		return protowire.AppendFixed64(b, math.Float64bits(v.Float()))
	case protoreflect.StringKind:
		return protowire.AppendString(b, v.String())
	case protoreflect.BytesKind:
		return protowire.AppendBytes(b, v.Bytes())
	case protoreflect.MessageKind:
		return protowire.AppendBytes(b, specAppend(nil, v.Message()))
	}
	panic("spec: unsupported kind " + fd.Kind().String())
}

func specField(b []byte, fd protoreflect.FieldDescriptor, v protoreflect.Value) []byte {
	num := protowire.Number(fd.Number())
	switch {
	case fd.IsList():
		l := v.List()
		if fd.IsPacked() {
			if l.Len() == 0 {
				return b
			}
			var body []byte
			for i := 0; i < l.Len(); i++ {
				body = specScalar(body, fd, l.Get(i))
			}
			b = protowire.AppendTag(b, num, protowire.BytesType)
			return protowire.AppendBytes(b, body)
		}
		for i := 0; i < l.Len(); i++ {
			b = protowire.AppendTag(b, num, wireTypeOf(fd.Kind()))
			b = specScalar(b, fd, l.Get(i))
		}
		return b
	case fd.IsMap():
		type ent struct {
			k protoreflect.MapKey
			v protoreflect.Value
		}
		var ents []ent
		v.Map().Range(func(k protoreflect.MapKey, mv protoreflect.Value) bool {
			ents = append(ents, ent{k, mv})
			return true
		})
		kfd := fd.MapKey()
		sort.Slice(ents, func(i, j int) bool { return keyLess(kfd, ents[i].k, ents[j].k) })
		for _, e := range ents {
			var body []byte
			body = protowire.AppendTag(body, 1, wireTypeOf(kfd.Kind()))
			body = specScalar(body, kfd, e.k.Value())
			body = protowire.AppendTag(body, 2, wireTypeOf(fd.MapValue().Kind()))
			body = specScalar(body, fd.MapValue(), e.v)
			b = protowire.AppendTag(b, num, protowire.BytesType)
			b = protowire.AppendBytes(b, body)
		}
		return b
	}
	b = protowire.AppendTag(b, num, wireTypeOf(fd.Kind()))
	return specScalar(b, fd, v)
}

func keyLess(kfd protoreflect.FieldDescriptor, a, b protoreflect.MapKey) bool {
	switch kfd.Kind() {
	case protoreflect.BoolKind:
		return !a.Bool() && b.Bool()
	case protoreflect.StringKind:
		return a.String() < b.String()
	case protoreflect.Int32Kind, protoreflect.Sint32Kind, protoreflect.Sfixed32Kind, protoreflect.Int64Kind, protoreflect.Sint64Kind, protoreflect.Sfixed64Kind:
		return a.Int() < b.Int()
	}
	return a.Uint() < b.Uint()
}
