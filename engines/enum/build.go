package enum

import (
	"google.golang.org/protobuf/proto"
	"google.golang.org/protobuf/reflect/protoreflect"
)

// FillFrom writes the value held by src (normally a dynamicpb message) into the generated Go struct
// dst using only protobuf-go's struct reflection (the slow view) — never the code under test. Nested
// generated messages are allocated with reflect and filled through their own slow view.
func FillFrom(dst proto.Message, src protoreflect.Message) {
	s := Slow(dst)
	src.Range(func(fd protoreflect.FieldDescriptor, v protoreflect.Value) bool {
		dfd := s.Descriptor().Fields().ByNumber(fd.Number())
		switch {
		case fd.IsList():
			l := s.Mutable(dfd).List()
			sl := v.List()
			for i := 0; i < sl.Len(); i++ {
				l.Append(convert(dfd, sl.Get(i)))
			}
		case fd.IsMap():
			mp := s.Mutable(dfd).Map()
			v.Map().Range(func(k protoreflect.MapKey, mv protoreflect.Value) bool {
				mp.Set(k, convert(dfd.MapValue(), mv))
				return true
			})
		default:
			s.Set(dfd, convert(dfd, v))
		}
		return true
	})
	if u := src.GetUnknown(); len(u) > 0 {
		s.SetUnknown(append(protoreflect.RawFields(nil), u...))
	}
}

func convert(fd protoreflect.FieldDescriptor, v protoreflect.Value) protoreflect.Value {
	switch fd.Kind() {
	case protoreflect.MessageKind, protoreflect.GroupKind:
		n := NewGo(fd.Message())
		FillFrom(n, v.Message())
		return protoreflect.ValueOfMessage(n.ProtoReflect())
	case protoreflect.BytesKind:
		return protoreflect.ValueOfBytes(append([]byte(nil), v.Bytes()...))
	}
	return v
}

// BuildGo allocates the generated struct for the dyn value's type and fills it.
func BuildGo(src protoreflect.Message) proto.Message {
	p := NewGo(src.Descriptor())
	FillFrom(p, src)
	return p
}

// CloneDyn deep-copies a dynamic value (used where a case is consumed destructively).
func CloneDyn(src protoreflect.Message) protoreflect.Message {
	return proto.Clone(src.Interface()).ProtoReflect()
}
