package enum

import (
	"fmt"
	"math"
	"strings"

	"google.golang.org/protobuf/encoding/protowire"
	"google.golang.org/protobuf/reflect/protoreflect"
)

// Level selects the size of scalar alphabets.
type Level int

const (
	Reduced  Level = iota // 2-3 representatives (used below the top level and in combinations)
	Boundary              // the boundary alphabet of DESIGN 1.3
	AllLens               // every 2^k-1, 2^k, 2^k+1 (thorough)
)

type V = protoreflect.Value

func i32s(xs ...int32) []V {
	var out []V
	for _, x := range xs {
		out = append(out, protoreflect.ValueOfInt32(x))
	}
	return out
}
func i64s(xs ...int64) []V {
	var out []V
	for _, x := range xs {
		out = append(out, protoreflect.ValueOfInt64(x))
	}
	return out
}
func u32s(xs ...uint32) []V {
	var out []V
	for _, x := range xs {
		out = append(out, protoreflect.ValueOfUint32(x))
	}
	return out
}
func u64s(xs ...uint64) []V {
	var out []V
	for _, x := range xs {
		out = append(out, protoreflect.ValueOfUint64(x))
	}
	return out
}

func pow2set64() []uint64 {
	seen := map[uint64]bool{}
	var out []uint64
	for k := 0; k <= 64; k++ {
		var p uint64
		if k < 64 {
			p = 1 << uint(k)
		}
		for _, x := range []uint64{p - 1, p, p + 1} {
			if !seen[x] {
				seen[x] = true
				out = append(out, x)
			}
		}
	}
	return out
}

// ScalarAlphabet returns the non-message alphabet of a kind (zero value first).
func ScalarAlphabet(fd protoreflect.FieldDescriptor, lv Level) []V {
	switch fd.Kind() {
	case protoreflect.BoolKind:
		return []V{protoreflect.ValueOfBool(false), protoreflect.ValueOfBool(true)}
	case protoreflect.Int32Kind, protoreflect.Sint32Kind, protoreflect.Sfixed32Kind:
		switch lv {
		case Reduced:
			return i32s(0, 1, -1, math.MinInt32)
		case Boundary:
			return i32s(0, 1, -1, 63, 64, 127, 128, -64, -65, 16383, 16384, math.MaxInt32, math.MinInt32)
		}
		var out []V
		seen := map[int32]bool{}
		for _, x := range pow2set64() {
			if x <= 1<<31 {
				for _, y := range []int32{int32(x), -int32(x)} {
					if !seen[y] {
						seen[y] = true
						out = append(out, protoreflect.ValueOfInt32(y))
					}
				}
			}
		}
		return zeroFirstI32(out)
	case protoreflect.Int64Kind, protoreflect.Sint64Kind, protoreflect.Sfixed64Kind:
		switch lv {
		case Reduced:
			return i64s(0, 1, -1, math.MinInt64)
		case Boundary:
			return i64s(0, 1, -1, 63, 64, 127, 128, -64, -65, math.MaxInt32, math.MinInt32, 1<<31, 1<<35-1, 1<<35, 1<<56-1, 1<<56, math.MaxInt64, math.MinInt64)
		}
		var out []V
		seen := map[int64]bool{}
		for _, x := range pow2set64() {
			for _, y := range []int64{int64(x), -int64(x)} {
				if !seen[y] {
					seen[y] = true
					out = append(out, protoreflect.ValueOfInt64(y))
				}
			}
		}
		return zeroFirstI64(out)
	case protoreflect.Uint32Kind, protoreflect.Fixed32Kind:
		switch lv {
		case Reduced:
			return u32s(0, 1, math.MaxUint32)
		case Boundary:
			return u32s(0, 1, 127, 128, 16383, 16384, 1<<31-1, 1<<31, math.MaxUint32)
		}
		var out []V
		seen := map[uint32]bool{}
		for _, x := range pow2set64() {
			if x <= math.MaxUint32 && !seen[uint32(x)] {
				seen[uint32(x)] = true
				out = append(out, protoreflect.ValueOfUint32(uint32(x)))
			}
		}
		return out
	case protoreflect.Uint64Kind, protoreflect.Fixed64Kind:
		switch lv {
		case Reduced:
			return u64s(0, 1, math.MaxUint64)
		case Boundary:
			return u64s(0, 1, 127, 128, 16383, 16384, 1<<31, 1<<32, 1<<35-1, 1<<35, 1<<56-1, 1<<56, 1<<63-1, 1<<63, math.MaxUint64)
		}
		var out []V
		for _, x := range pow2set64() {
			out = append(out, protoreflect.ValueOfUint64(x))
		}
		return out
	case protoreflect.FloatKind:
		// float32 signalling NaNs cannot be carried by protoreflect.Value (float32<->float64 conversion quiets
		// them), so no reference can hold one: they are outside the space.
		f := func(bits uint32) V { return protoreflect.ValueOfFloat32(math.Float32frombits(bits)) }
		if lv == Reduced {
			return []V{f(0), f(0x80000000), f(0x3f800000)}
		}
		return []V{f(0), f(0x80000000), f(0x3f800000), f(0xbfc00000), f(0x7f800000), f(0xff800000), f(0x7fc00000), f(0x7fc00123), f(0xffc00001), f(1), f(0x7f7fffff)}
	case protoreflect.DoubleKind:
		d := func(bits uint64) V { return protoreflect.ValueOfFloat64(math.Float64frombits(bits)) }
		if lv == Reduced {
			return []V{d(0), d(1 << 63), d(0x3ff0000000000000)}
		}
		return []V{d(0), d(1 << 63), d(0x3ff0000000000000), d(0xbff8000000000000), d(0x7ff0000000000000), d(0xfff0000000000000), d(0x7ff8000000000000), d(0x7ff8000000000123), d(0x7ff0000000000001), d(0xfff8000000000001), d(1), d(0x7fefffffffffffff)}
	case protoreflect.StringKind:
		if lv == Reduced {
			return []V{protoreflect.ValueOfString(""), protoreflect.ValueOfString("a"), protoreflect.ValueOfString("é\x00z")}
		}
		out := []V{protoreflect.ValueOfString(""), protoreflect.ValueOfString("a"), protoreflect.ValueOfString("é"), protoreflect.ValueOfString("\x00"),
			protoreflect.ValueOfString(strings.Repeat("a", 127)), protoreflect.ValueOfString(strings.Repeat("b", 128))}
		if lv == AllLens {
			out = append(out, protoreflect.ValueOfString(strings.Repeat("c", 16383)), protoreflect.ValueOfString(strings.Repeat("d", 16384)))
		}
		return out
	case protoreflect.BytesKind:
		if lv == Reduced {
			return []V{protoreflect.ValueOfBytes(nil), protoreflect.ValueOfBytes([]byte{0}), protoreflect.ValueOfBytes([]byte{0xff, 0, 0x80})}
		}
		out := []V{protoreflect.ValueOfBytes(nil), protoreflect.ValueOfBytes([]byte{0}), protoreflect.ValueOfBytes([]byte{0xff, 0}),
			protoreflect.ValueOfBytes([]byte(strings.Repeat("\xaa", 127))), protoreflect.ValueOfBytes([]byte(strings.Repeat("\xab", 128)))}
		if lv == AllLens {
			out = append(out, protoreflect.ValueOfBytes([]byte(strings.Repeat("\x01", 16383))), protoreflect.ValueOfBytes([]byte(strings.Repeat("\x02", 16384))))
		}
		return out
	case protoreflect.EnumKind:
		vals := fd.Enum().Values()
		declared := map[protoreflect.EnumNumber]bool{}
		out := []V{protoreflect.ValueOfEnum(0)}
		declared[0] = true
		for i := 0; i < vals.Len(); i++ {
			n := vals.Get(i).Number()
			if !declared[n] {
				declared[n] = true
				out = append(out, protoreflect.ValueOfEnum(n))
			}
			if lv == Reduced && len(out) >= 2 {
				break
			}
		}
		extra := []protoreflect.EnumNumber{-7}
		if lv != Reduced {
			extra = []protoreflect.EnumNumber{77, -7, math.MaxInt32, math.MinInt32, 128}
		}
		for _, n := range extra {
			if !declared[n] {
				out = append(out, protoreflect.ValueOfEnum(n))
			}
		}
		return out
	}
	panic(fmt.Sprintf("enum: no scalar alphabet for %v", fd.Kind()))
}

func zeroFirstI32(vs []V) []V {
	out := []V{protoreflect.ValueOfInt32(0)}
	for _, v := range vs {
		if v.Int() != 0 {
			out = append(out, v)
		}
	}
	return out
}
func zeroFirstI64(vs []V) []V {
	out := []V{protoreflect.ValueOfInt64(0)}
	for _, v := range vs {
		if v.Int() != 0 {
			out = append(out, v)
		}
	}
	return out
}

// IsZeroScalar reports whether v is the proto3 default of its (non-message) kind; -0.0 is not.
func IsZeroScalar(fd protoreflect.FieldDescriptor, v V) bool {
	switch fd.Kind() {
	case protoreflect.BoolKind:
		return !v.Bool()
	case protoreflect.EnumKind:
		return v.Enum() == 0
	case protoreflect.Int32Kind, protoreflect.Sint32Kind, protoreflect.Sfixed32Kind, protoreflect.Int64Kind, protoreflect.Sint64Kind, protoreflect.Sfixed64Kind:
		return v.Int() == 0
	case protoreflect.Uint32Kind, protoreflect.Fixed32Kind, protoreflect.Uint64Kind, protoreflect.Fixed64Kind:
		return v.Uint() == 0
	case protoreflect.FloatKind, protoreflect.DoubleKind:
		return math.Float64bits(v.Float()) == 0
	case protoreflect.StringKind:
		return v.String() == ""
	case protoreflect.BytesKind:
		return len(v.Bytes()) == 0
	}
	return false
}

// UnknownAlphabet returns raw unknown-field records whose numbers are not declared in md.
func UnknownAlphabet(md protoreflect.MessageDescriptor, lv Level) [][]byte {
	free := func(start protowire.Number) protowire.Number {
		n := start
		for md.Fields().ByNumber(n) != nil {
			n++
		}
		return n
	}
	a := free(1000)
	b := free(1)
	hi := protowire.Number(536870910)
	for md.Fields().ByNumber(hi) != nil {
		hi--
	}
	var out [][]byte
	out = append(out, protowire.AppendVarint(protowire.AppendTag(nil, a, protowire.VarintType), 300))
	out = append(out, protowire.AppendBytes(protowire.AppendTag(nil, b, protowire.BytesType), []byte("unk")))
	if lv == Reduced {
		return out
	}
	out = append(out, protowire.AppendFixed32(protowire.AppendTag(nil, a, protowire.Fixed32Type), 0xdeadbeef))
	out = append(out, protowire.AppendFixed64(protowire.AppendTag(nil, hi, protowire.Fixed64Type), 0x0102030405060708))
	g := protowire.AppendTag(nil, a, protowire.StartGroupType)
	g = protowire.AppendVarint(protowire.AppendTag(g, 1, protowire.VarintType), 1)
	g = protowire.AppendTag(g, 2, protowire.StartGroupType)
	g = protowire.AppendTag(g, 2, protowire.EndGroupType)
	g = protowire.AppendTag(g, a, protowire.EndGroupType)
	out = append(out, g)
	// non-minimal varint value and tag
	out = append(out, append(protowire.AppendTag(nil, a, protowire.VarintType), 0x81, 0x80, 0x00))
	// two records
	two := protowire.AppendVarint(protowire.AppendTag(nil, a, protowire.VarintType), 1)
	two = protowire.AppendBytes(protowire.AppendTag(two, hi, protowire.BytesType), nil)
	out = append(out, two)
	// a group holding every other wire type, a nested group with a length-delimited field among them
	g2 := protowire.AppendTag(nil, b, protowire.StartGroupType)
	g2 = protowire.AppendBytes(protowire.AppendTag(g2, 1, protowire.BytesType), []byte("in"))
	g2 = protowire.AppendFixed32(protowire.AppendTag(g2, 2, protowire.Fixed32Type), 7)
	g2 = protowire.AppendTag(g2, 3, protowire.StartGroupType)
	g2 = protowire.AppendBytes(protowire.AppendTag(g2, 1, protowire.BytesType), []byte{1})
	g2 = protowire.AppendTag(g2, 3, protowire.EndGroupType)
	g2 = protowire.AppendFixed64(protowire.AppendTag(g2, 4, protowire.Fixed64Type), 9)
	g2 = protowire.AppendTag(g2, b, protowire.EndGroupType)
	out = append(out, g2)
	// two records, the higher field number first (arrival order need not be field-number order)
	desc := protowire.AppendBytes(protowire.AppendTag(nil, hi, protowire.BytesType), []byte("hi"))
	desc = protowire.AppendVarint(protowire.AppendTag(desc, b, protowire.VarintType), 7)
	out = append(out, desc)
	return out
}
