package enum

import (
	"encoding/hex"
	"fmt"
	"math"
	"sort"
	"strconv"
	"strings"

	"google.golang.org/protobuf/reflect/protoreflect"
)

// Canon renders the observable value of m as a canonical string: populated fields by number, floats
// bit-exactly, map entries sorted by key, unknown bytes verbatim. With viaSlow, every generated
// (non-dynamic) message met during the walk is observed through protobuf-go's struct reflection
// instead of its own ProtoReflect implementation.
func Canon(m protoreflect.Message, viaSlow bool) string {
	var sb strings.Builder
	canonMsg(&sb, m, viaSlow)
	return sb.String()
}

func canonMsg(sb *strings.Builder, m protoreflect.Message, viaSlow bool) {
	if viaSlow {
		m = Rewrap(m)
	}
	type fv struct {
		fd protoreflect.FieldDescriptor
		v  protoreflect.Value
	}
	var fs []fv
	m.Range(func(fd protoreflect.FieldDescriptor, v protoreflect.Value) bool {
		fs = append(fs, fv{fd, v})
		return true
	})
	sort.Slice(fs, func(i, j int) bool { return fs[i].fd.Number() < fs[j].fd.Number() })
	sb.WriteByte('{')
	for i, f := range fs {
		if i > 0 {
			sb.WriteByte(' ')
		}
		sb.WriteString(strconv.Itoa(int(f.fd.Number())))
		sb.WriteByte(':')
		switch {
		case f.fd.IsList():
			l := f.v.List()
			sb.WriteByte('[')
			for j := 0; j < l.Len(); j++ {
				if j > 0 {
					sb.WriteByte(',')
				}
				canonVal(sb, f.fd, l.Get(j), viaSlow)
			}
			sb.WriteByte(']')
		case f.fd.IsMap():
			mp := f.v.Map()
			var ents []string
			mp.Range(func(k protoreflect.MapKey, v protoreflect.Value) bool {
				var e strings.Builder
				canonVal(&e, f.fd.MapKey(), k.Value(), viaSlow)
				e.WriteString("=>")
				canonVal(&e, f.fd.MapValue(), v, viaSlow)
				ents = append(ents, e.String())
				return true
			})
			sort.Strings(ents)
			sb.WriteString("map[")
			sb.WriteString(strings.Join(ents, ","))
			sb.WriteByte(']')
		default:
			canonVal(sb, f.fd, f.v, viaSlow)
		}
	}
	if u := m.GetUnknown(); len(u) > 0 {
		if len(fs) > 0 {
			sb.WriteByte(' ')
		}
		sb.WriteString("?:")
		sb.WriteString(hex.EncodeToString(u))
	}
	sb.WriteByte('}')
}

func canonVal(sb *strings.Builder, fd protoreflect.FieldDescriptor, v protoreflect.Value, viaSlow bool) {
	switch fd.Kind() {
	case protoreflect.BoolKind:
		if v.Bool() {
			sb.WriteString("T")
		} else {
			sb.WriteString("F")
		}
	case protoreflect.EnumKind:
		sb.WriteString("e")
		sb.WriteString(strconv.Itoa(int(v.Enum())))
	case protoreflect.Int32Kind, protoreflect.Sint32Kind, protoreflect.Sfixed32Kind,
		protoreflect.Int64Kind, protoreflect.Sint64Kind, protoreflect.Sfixed64Kind:
		sb.WriteString(strconv.FormatInt(v.Int(), 10))
	case protoreflect.Uint32Kind, protoreflect.Fixed32Kind, protoreflect.Uint64Kind, protoreflect.Fixed64Kind:
		sb.WriteString("u")
		sb.WriteString(strconv.FormatUint(v.Uint(), 10))
	case protoreflect.FloatKind:
		sb.WriteString("f")
		sb.WriteString(strconv.FormatUint(uint64(math.Float32bits(float32(v.Float()))), 16))
	case protoreflect.DoubleKind:
		sb.WriteString("d")
		sb.WriteString(strconv.FormatUint(math.Float64bits(v.Float()), 16))
	case protoreflect.StringKind:
		sb.WriteString(strconv.Quote(v.String()))
	case protoreflect.BytesKind:
		sb.WriteString("x")
		sb.WriteString(hex.EncodeToString(v.Bytes()))
	case protoreflect.MessageKind, protoreflect.GroupKind:
		canonMsg(sb, v.Message(), viaSlow)
	default:
		sb.WriteString(fmt.Sprintf("?kind%d", fd.Kind()))
	}
}
