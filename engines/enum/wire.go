package enum

import (
	"fmt"

	"google.golang.org/protobuf/encoding/protowire"
	"google.golang.org/protobuf/reflect/protoreflect"
)

// Rec is one well-typed wire record (tag + payload) for a message type.
type Rec struct {
	Label string
	Class string // shape of the field + variant of the record (violation-key granularity)
	Bytes []byte
	Num   protowire.Number
}

func padVarint(b []byte) []byte {
	// make the last varint byte non-terminal and terminate with 0x00: same value, one byte longer
	out := append([]byte(nil), b...)
	out[len(out)-1] |= 0x80
	return append(out, 0x00)
}

// padLength re-encodes the length prefix of a length-delimited payload (length varint + body) with one padding byte.
func padLength(p []byte) []byte {
	_, n := protowire.ConsumeVarint(p)
	out := padVarint(p[:n])
	return append(out, p[n:]...)
}

// longPayload: a string/bytes payload of n bytes (n=300: a two-byte length whose first byte carries data bits and
// whose second byte is even, so a decoder that mishandles the continuation bit reads a different length).
func longPayload(n int) []byte {
	body := make([]byte, n)
	for i := range body {
		body[i] = byte('a' + i%26)
	}
	return protowire.AppendBytes(nil, body)
}

func isLenKind(k protoreflect.Kind) bool {
	return k == protoreflect.StringKind || k == protoreflect.BytesKind
}

func tagBytes(num protowire.Number, wt protowire.Type) []byte {
	return protowire.AppendTag(nil, num, wt)
}

func fieldShape(fd protoreflect.FieldDescriptor) string {
	s := fd.Kind().String()
	switch {
	case fd.IsMap():
		s = "map<" + fd.MapKey().Kind().String() + "," + fd.MapValue().Kind().String() + ">"
	case fd.IsList():
		if fd.IsPacked() {
			s += "/packed-decl"
		} else {
			s += "/repeated"
		}
	default:
		s += "/singular"
	}
	if od := fd.ContainingOneof(); od != nil && !od.IsSynthetic() {
		s += "/oneof"
	}
	return s
}

// SubMessages returns encodings of a few different values of md: empty, A, B (A and B populate
// different slots, so "merge" and "last one wins" are distinguishable), and A with unknown data.
func SubMessages(md protoreflect.MessageDescriptor) (labels []string, encs [][]byte) {
	labels = append(labels, "{}")
	encs = append(encs, nil)
	sp := NewSpace(md, Opts{Top: Reduced, MaxDepth: 0, NoUnk: true})
	n := 0
	for si, sl := range sp.Slots {
		if sl.Oneof != "" && n > 0 {
			continue
		}
		for ci, c := range sl.Cands {
			if !c.Rep {
				continue
			}
			d := sp.BuildDyn(Case{{S: si, C: ci}})
			e := SpecEncode(d)
			if len(e) == 0 {
				continue
			}
			labels = append(labels, "{"+sl.Name+"="+c.Label+"}")
			encs = append(encs, e)
			n++
			break
		}
		if n >= 2 {
			break
		}
	}
	// an explicit zero for the scalar that value A sets (no encoder emits it; a later occurrence carrying it resets the field)
	for si, sl := range sp.Slots {
		_ = si
		if sl.Oneof != "" || sl.FD == nil || sl.FD.IsList() || sl.FD.IsMap() || sl.FD.Kind() == protoreflect.MessageKind || sl.FD.Kind() == protoreflect.GroupKind {
			continue
		}
		z := ScalarAlphabet(sl.FD, Reduced)[0]
		if !IsZeroScalar(sl.FD, z) {
			continue
		}
		labels = append(labels, "{"+sl.Name+"=explicit-zero}")
		encs = append(encs, append(tagBytes(protowire.Number(sl.FD.Number()), wireTypeOf(sl.FD.Kind())), specScalar(nil, sl.FD, z)...))
		break
	}
	// two different unknown records: several occurrences of the field must keep both, in arrival order (also the only
	// non-empty values a message type WITHOUT fields has)
	ua := UnknownAlphabet(md, Reduced)
	labels = append(labels, "{?unknown=u0}", "{?unknown=u1}")
	encs = append(encs, ua[0], ua[1])
	return
}

func isVarintKind(k protoreflect.Kind) bool {
	return wireTypeOf(k) == protowire.VarintType
}

// scalarPayloads returns (label, payload-without-tag) pairs for a non-message kind: the reduced
// alphabet (explicit zero included) plus, for varint kinds, a non-minimal (padded) varint.
func scalarPayloads(fd protoreflect.FieldDescriptor, max int) (labels []string, pays [][]byte) {
	vals := ScalarAlphabet(fd, Reduced)
	for i, v := range vals {
		if i >= max {
			break
		}
		labels = append(labels, lbl(fd, v))
		pays = append(pays, specScalar(nil, fd, v))
	}
	if isVarintKind(fd.Kind()) {
		// pad a value whose minimal encoding is shorter than 10 bytes (a padded 10-byte varint is malformed)
		pick := vals[0]
		for _, v := range vals {
			if e := specScalar(nil, fd, v); len(e) < 10 && !IsZeroScalar(fd, v) {
				pick = v
				break
			}
		}
		labels = append(labels, lbl(fd, pick)+"(padded-varint)")
		pays = append(pays, padVarint(specScalar(nil, fd, pick)))
	}
	return
}

// wideVarints: varints carrying more bits than the field's kind holds (decoders truncate: to 32 bits BEFORE undoing
// zigzag for sint32, to "non-zero" for bool), and the 5-byte form of a negative 32-bit number.
func wideVarints(fd protoreflect.FieldDescriptor) (labels []string, pays [][]byte) {
	add := func(l string, v uint64) {
		labels = append(labels, l)
		pays = append(pays, protowire.AppendVarint(nil, v))
	}
	switch fd.Kind() {
	case protoreflect.Int32Kind, protoreflect.Uint32Kind, protoreflect.Sint32Kind, protoreflect.EnumKind:
		add("wide(2^32+1)", 1<<32+1)
		add("wide(2^32-1:5bytes)", 1<<32-1)
		add("wide(2^63+2^32+2^31+3)", 1<<63+1<<32+1<<31+3)
	case protoreflect.BoolKind:
		add("wide(2)", 2)
		add("wide(2^32)", 1<<32)
		add("wide(2^63)", 1<<63)
	}
	return
}

// RecordAlphabet generates the well-typed record alphabet R(T) of DESIGN C03 from the descriptor.
func RecordAlphabet(md protoreflect.MessageDescriptor, rich bool) []Rec {
	var out []Rec
	add := func(fd protoreflect.FieldDescriptor, variant, label string, b []byte) {
		out = append(out, Rec{Label: string(fd.Name()) + ":" + label, Class: fieldShape(fd) + ":" + variant, Bytes: b, Num: protowire.Number(fd.Number())})
	}
	fields := md.Fields()
	for i := 0; i < fields.Len(); i++ {
		fd := fields.Get(i)
		num := protowire.Number(fd.Number())
		isMsg := fd.Kind() == protoreflect.MessageKind
		switch {
		case fd.IsMap():
			kfd, vfd := fd.MapKey(), fd.MapValue()
			kl, kp := scalarPayloads(kfd, 3)
			var vl []string
			var vp [][]byte
			if vfd.Kind() == protoreflect.MessageKind {
				ls, es := SubMessages(vfd.Message())
				for j := range es {
					vl = append(vl, ls[j])
					vp = append(vp, protowire.AppendBytes(nil, es[j]))
				}
			} else {
				vl, vp = scalarPayloads(vfd, 3)
			}
			kt := tagBytes(1, wireTypeOf(kfd.Kind()))
			vt := tagBytes(2, wireTypeOf(vfd.Kind()))
			k0, k1 := kp[0], kp[len(kp)-1]
			if isVarintKind(kfd.Kind()) && len(kp) >= 2 {
				k1 = kp[len(kp)-2]
			}
			v0, v1 := vp[0], vp[len(vp)-1]
			if len(vp) >= 3 {
				v0 = vp[1]
			}
			entry := func(parts ...[]byte) []byte {
				var body []byte
				for _, p := range parts {
					body = append(body, p...)
				}
				return protowire.AppendBytes(tagBytes(num, protowire.BytesType), body)
			}
			K := func(k []byte) []byte { return append(append([]byte(nil), kt...), k...) }
			V := func(v []byte) []byte { return append(append([]byte(nil), vt...), v...) }
			add(fd, "entry", "{k1:v1}", entry(K(k1), V(v1)))
			add(fd, "entry", "{k1:v0}", entry(K(k1), V(v0)))
			add(fd, "entry", "{k0:v1}", entry(K(k0), V(v1)))
			add(fd, "key-only", "{k1:}", entry(K(k1)))
			add(fd, "value-only", "{:v1}", entry(V(v1)))
			add(fd, "empty-entry", "{}", entry())
			add(fd, "value-before-key", "{v1,k1}", entry(V(v1), K(k1)))
			add(fd, "dup-key", "{k0,k1,v1}", entry(K(k0), K(k1), V(v1)))
			add(fd, "dup-value", "{k1,v0,v1}", entry(K(k1), V(v0), V(v1)))
			// duplicated key / value inside one entry with two different NON-zero values (last one wins)
			if len(kp) >= 3 {
				add(fd, "dup-key-nonzero", "{kA,kB,v1}", entry(K(kp[1]), K(kp[len(kp)-2]), V(v1)))
				add(fd, "dup-key-nonzero", "{kB,kA,v1}", entry(K(kp[len(kp)-2]), K(kp[1]), V(v1)))
			}
			if len(vp) >= 3 && vfd.Kind() != protoreflect.MessageKind {
				add(fd, "dup-value-nonzero", "{k1,vA,vB}", entry(K(k1), V(vp[1]), V(vp[len(vp)-2])))
				add(fd, "dup-value-nonzero", "{k1,vB,vA}", entry(K(k1), V(vp[len(vp)-2]), V(vp[1])))
			}
			unk := protowire.AppendVarint(tagBytes(3, protowire.VarintType), 9)
			add(fd, "entry+unknown-subfield", "{k1,?3,v1}", entry(K(k1), unk, V(v1)))
			// unknown sub-fields of the other wire types; a length-delimited one whose payload reads as a different
			// key and value; the same with non-minimal (padded) tags; a multi-byte field number; padded key / value tags
			inner := append(K(k0), V(v0)...)
			unkB := protowire.AppendBytes(tagBytes(3, protowire.BytesType), inner)
			add(fd, "entry+unknown-bytes-subfield", "{k1,v1,?3:bytes(k0,v0)}", entry(K(k1), V(v1), unkB))
			add(fd, "entry+unknown-bytes-subfield", "{?3:bytes(k0,v0),k1,v1}", entry(unkB, K(k1), V(v1)))
			unkBP := append(padVarint(tagBytes(3, protowire.BytesType)), protowire.AppendBytes(nil, inner)...)
			add(fd, "entry+unknown-subfield-padded-tag", "{k1,v1,?3(padded-tag):bytes(k0,v0)}", entry(K(k1), V(v1), unkBP))
			add(fd, "entry+unknown-subfield-padded-tag", "{k1,?3(padded-tag):varint,v1}", entry(K(k1), append(padVarint(tagBytes(3, protowire.VarintType)), 9), V(v1)))
			add(fd, "entry+unknown-fixed-subfields", "{k1,?4:fixed32,?5:fixed64,v1}", entry(K(k1), protowire.AppendFixed32(tagBytes(4, protowire.Fixed32Type), 7), protowire.AppendFixed64(tagBytes(5, protowire.Fixed64Type), 7), V(v1)))
			grp := append(append(tagBytes(6, protowire.StartGroupType), inner...), tagBytes(6, protowire.EndGroupType)...)
			add(fd, "entry+unknown-group-subfield", "{k1,?6:group(k0,v0),v1}", entry(K(k1), grp, V(v1)))
			add(fd, "entry+unknown-subfield-wide-number", "{k1,v1,?300000:bytes(k0,v0)}", entry(K(k1), V(v1), protowire.AppendBytes(tagBytes(300000, protowire.BytesType), inner)))
			add(fd, "entry-padded-tags", "{k1(padded-tag),v1(padded-tag)}", entry(append(padVarint(kt), k1...), append(padVarint(vt), v1...)))
			if wl, wp := wideVarints(kfd); len(wp) > 0 {
				add(fd, "entry-wide-key", "{"+wl[0]+":v1}", entry(K(wp[0]), V(v1)))
				add(fd, "entry-wide-key", "{"+wl[2]+":v1}", entry(K(wp[2]), V(v1)))
			}
			if vfd.Kind() != protoreflect.MessageKind {
				if wl, wp := wideVarints(vfd); len(wp) > 0 {
					add(fd, "entry-wide-value", "{k1:"+wl[0]+"}", entry(K(k1), V(wp[0])))
					add(fd, "entry-wide-value", "{k1:"+wl[2]+"}", entry(K(k1), V(wp[2])))
				}
			}
			// length prefixes inside the entry: padded, and long enough to need two bytes
			if isLenKind(kfd.Kind()) {
				add(fd, "entry-padded-key-length", "{k1(padded-length):v1}", entry(K(padLength(k1)), V(v1)))
				add(fd, "entry-long-key", "{k(300 bytes):v1}", entry(K(longPayload(300)), V(v1)))
			}
			if isLenKind(vfd.Kind()) || vfd.Kind() == protoreflect.MessageKind {
				add(fd, "entry-padded-value-length", "{k1:v1(padded-length)}", entry(K(k1), V(padLength(v1))))
			}
			if isLenKind(vfd.Kind()) {
				add(fd, "entry-long-value", "{k1:v(300 bytes)}", entry(K(k1), V(longPayload(300))))
			}
			{
				body := append(K(k1), V(v1)...)
				rec := append(tagBytes(num, protowire.BytesType), padVarint(protowire.AppendVarint(nil, uint64(len(body))))...)
				add(fd, "entry-padded-length", "{k1:v1}(padded-length)", append(rec, body...))
			}
			if rich {
				for j := range kp {
					add(fd, "entry", fmt.Sprintf("{%s:v1}", kl[j]), entry(K(kp[j]), V(v1)))
				}
				for j := range vp {
					add(fd, "entry", fmt.Sprintf("{k1:%s}", vl[j]), entry(K(k1), V(vp[j])))
				}
			}
		case fd.IsList() && isMsg:
			ls, es := SubMessages(fd.Message())
			for j := range es {
				add(fd, "element", ls[j], protowire.AppendBytes(tagBytes(num, protowire.BytesType), es[j]))
			}
			add(fd, "element-padded-length", ls[len(es)-1]+"(padded-length)", append(tagBytes(num, protowire.BytesType), padLength(protowire.AppendBytes(nil, es[len(es)-1]))...))
		case fd.IsList():
			wt := wireTypeOf(fd.Kind())
			ls, ps := scalarPayloads(fd, 3)
			for j := range ps {
				add(fd, "unpacked", ls[j], append(tagBytes(num, wt), ps[j]...))
			}
			if isLenKind(fd.Kind()) {
				add(fd, "unpacked-padded-length", ls[len(ls)-1]+"(padded-length)", append(tagBytes(num, wt), padLength(ps[len(ps)-1])...))
				add(fd, "unpacked-long", "(300 bytes)", append(tagBytes(num, wt), longPayload(300)...))
			}
			if wt != protowire.BytesType {
				// packed form, accepted whatever the declaration says
				for n := 0; n <= 3; n++ {
					var body []byte
					for e := 0; e < n; e++ {
						body = append(body, ps[(e+1)%len(ps)]...)
					}
					add(fd, fmt.Sprintf("packed%d", n), fmt.Sprintf("packed[%d]", n), protowire.AppendBytes(tagBytes(num, protowire.BytesType), body))
				}
				body := append(append([]byte(nil), ps[len(ps)-1]...), ps[0]...)
				rec := append(tagBytes(num, protowire.BytesType), padVarint(protowire.AppendVarint(nil, uint64(len(body))))...)
				add(fd, "packed-padded-length", "packed[2](padded-length)", append(rec, body...))
				if wl, wp := wideVarints(fd); len(wp) > 0 {
					var wb []byte
					for j := range wp {
						add(fd, "unpacked-wide-varint", wl[j], append(tagBytes(num, wt), wp[j]...))
						wb = append(wb, wp[j]...)
					}
					add(fd, "packed-wide-varints", "packed[wide x3]", protowire.AppendBytes(tagBytes(num, protowire.BytesType), wb))
				}
			}
		case isMsg:
			ls, es := SubMessages(fd.Message())
			for j := range es {
				add(fd, "submessage", ls[j], protowire.AppendBytes(tagBytes(num, protowire.BytesType), es[j]))
			}
			if len(es) > 1 {
				rec := append(padVarint(tagBytes(num, protowire.BytesType)), protowire.AppendBytes(nil, es[len(es)-1])...)
				add(fd, "submessage-padded-tag", ls[len(es)-1]+"(padded-tag)", rec)
			}
			add(fd, "submessage-padded-length", ls[len(es)-1]+"(padded-length)", append(tagBytes(num, protowire.BytesType), padLength(protowire.AppendBytes(nil, es[len(es)-1]))...))
		default:
			wt := wireTypeOf(fd.Kind())
			ls, ps := scalarPayloads(fd, 3)
			for j := range ps {
				add(fd, "value", ls[j], append(tagBytes(num, wt), ps[j]...))
			}
			add(fd, "value-padded-tag", ls[len(ls)-1]+"(padded-tag)", append(padVarint(tagBytes(num, wt)), ps[len(ps)-1]...))
			if isLenKind(fd.Kind()) {
				add(fd, "value-padded-length", ls[len(ls)-1]+"(padded-length)", append(tagBytes(num, wt), padLength(ps[len(ps)-1])...))
				add(fd, "value-long", "(300 bytes)", append(tagBytes(num, wt), longPayload(300)...))
			}
			wl, wp := wideVarints(fd)
			for j := range wp {
				add(fd, "value-wide-varint", wl[j], append(tagBytes(num, wt), wp[j]...))
			}
		}
	}
	// unknown records of every wire type
	for i, u := range UnknownAlphabet(md, Boundary) {
		if !rich && i >= 5 {
			break
		}
		n, _, _ := protowire.ConsumeTag(u)
		out = append(out, Rec{Label: fmt.Sprintf("?unk%d", i), Class: fmt.Sprintf("unknown:%d", i), Bytes: u, Num: n})
	}
	return out
}
