package enum

import (
	"encoding/hex"
	"fmt"
	"math"
	"reflect"
	"sort"
	"strconv"
	"strings"
	"unsafe"

	"google.golang.org/protobuf/proto"
)

// Snapshot renders the complete Go-struct state of a generated message: every exported field and
// the unknownFields bytes, recursively, distinguishing nil from empty slices/maps/bytes and nil
// pointers/interfaces from allocated ones. protoimpl's bookkeeping words (state, sizeCache) are
// excluded: they are managed atomically by protobuf-go itself.
func Snapshot(p proto.Message) string {
	var sb strings.Builder
	snapValue(&sb, reflect.ValueOf(p), 0)
	return sb.String()
}

func snapValue(sb *strings.Builder, v reflect.Value, depth int) {
	if depth > 64 {
		sb.WriteString("<deep>")
		return
	}
	switch v.Kind() {
	case reflect.Ptr:
		if v.IsNil() {
			sb.WriteString("nil")
			return
		}
		sb.WriteByte('&')
		snapValue(sb, v.Elem(), depth+1)
	case reflect.Interface:
		if v.IsNil() {
			sb.WriteString("nil-iface")
			return
		}
		sb.WriteString("(" + v.Elem().Type().String() + ")")
		snapValue(sb, v.Elem(), depth+1)
	case reflect.Struct:
		t := v.Type()
		sb.WriteString(t.Name() + "{")
		for i := 0; i < t.NumField(); i++ {
			f := t.Field(i)
			fv := v.Field(i)
			if f.PkgPath != "" { // unexported
				if f.Name != "unknownFields" {
					continue
				}
				if !fv.CanAddr() {
					sb.WriteString("unknownFields:<unaddressable> ")
					continue
				}
				fv = reflect.NewAt(f.Type, unsafe.Pointer(fv.UnsafeAddr())).Elem()
			}
			sb.WriteString(f.Name + ":")
			snapValue(sb, fv, depth+1)
			sb.WriteByte(' ')
		}
		sb.WriteByte('}')
	case reflect.Slice:
		if v.IsNil() {
			sb.WriteString("nil[]")
			return
		}
		if v.Type().Elem().Kind() == reflect.Uint8 {
			sb.WriteString("x'" + hex.EncodeToString(v.Bytes()) + "'")
			return
		}
		sb.WriteString("[" + strconv.Itoa(v.Len()) + ":")
		for i := 0; i < v.Len(); i++ {
			if i > 0 {
				sb.WriteByte(',')
			}
			snapValue(sb, v.Index(i), depth+1)
		}
		sb.WriteByte(']')
	case reflect.Map:
		if v.IsNil() {
			sb.WriteString("nilmap")
			return
		}
		var ents []string
		it := v.MapRange()
		for it.Next() {
			var e strings.Builder
			snapValue(&e, it.Key(), depth+1)
			e.WriteString("=>")
			snapValue(&e, it.Value(), depth+1)
			ents = append(ents, e.String())
		}
		sort.Strings(ents)
		sb.WriteString("map[" + strconv.Itoa(len(ents)) + ":" + strings.Join(ents, ",") + "]")
	case reflect.String:
		sb.WriteString(strconv.Quote(v.String()))
	case reflect.Bool:
		sb.WriteString(strconv.FormatBool(v.Bool()))
	case reflect.Int, reflect.Int8, reflect.Int16, reflect.Int32, reflect.Int64:
		sb.WriteString(strconv.FormatInt(v.Int(), 10))
	case reflect.Uint, reflect.Uint8, reflect.Uint16, reflect.Uint32, reflect.Uint64:
		sb.WriteString("u" + strconv.FormatUint(v.Uint(), 10))
	case reflect.Float32:
		sb.WriteString("f" + strconv.FormatUint(uint64(math.Float32bits(float32(v.Float()))), 16))
	case reflect.Float64:
		sb.WriteString("d" + strconv.FormatUint(math.Float64bits(v.Float()), 16))
	default:
		sb.WriteString(fmt.Sprintf("<%s>", v.Kind()))
	}
}
