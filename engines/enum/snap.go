package enum

import (
	"encoding/hex"
	"fmt"
	"math"
	"reflect"
	"sort"
	"strconv"
	"strings"

	"google.golang.org/protobuf/reflect/protoreflect"
	"unsafe"

	"google.golang.org/protobuf/proto"
)

// Snapshot renders the complete Go-struct state of a generated message: every exported field and
// the unknownFields bytes, recursively, distinguishing nil from empty slices/maps/bytes and nil
// pointers/interfaces from allocated ones. protoimpl's bookkeeping words (state, sizeCache) are
// excluded: they are managed atomically by protobuf-go itself.
// SnapshotHeaders makes the snapshot record slice capacities too: a "read" that re-slices a field has written
// to the struct, which concurrent readers race on even if length and contents stay the same.
var SnapshotHeaders bool

func Snapshot(p proto.Message) string {
	var sb strings.Builder
	snapValue(&sb, reflect.ValueOf(p), 0)
	return sb.String()
}

func snapValue(sb *strings.Builder, v reflect.Value, depth int) {
	if depth > 64 {
		sb.WriteString("<deep>")
		return
	}
	switch v.Kind() {
	case reflect.Ptr:
		if v.IsNil() {
			sb.WriteString("nil")
			return
		}
		sb.WriteByte('&')
		snapValue(sb, v.Elem(), depth+1)
	case reflect.Interface:
		if v.IsNil() {
			sb.WriteString("nil-iface")
			return
		}
		sb.WriteString("(" + v.Elem().Type().String() + ")")
		snapValue(sb, v.Elem(), depth+1)
	case reflect.Struct:
		t := v.Type()
		sb.WriteString(t.Name() + "{")
		for i := 0; i < t.NumField(); i++ {
			f := t.Field(i)
			fv := v.Field(i)
			if f.PkgPath != "" { // unexported
				if f.Name != "unknownFields" {
					continue
				}
				if !fv.CanAddr() {
					sb.WriteString("unknownFields:<unaddressable> ")
					continue
				}
				fv = reflect.NewAt(f.Type, unsafe.Pointer(fv.UnsafeAddr())).Elem()
			}
			sb.WriteString(f.Name + ":")
			snapValue(sb, fv, depth+1)
			sb.WriteByte(' ')
		}
		sb.WriteByte('}')
	case reflect.Slice:
		if v.IsNil() {
			sb.WriteString("nil[]")
			return
		}
		if v.Type().Elem().Kind() == reflect.Uint8 {
			sb.WriteString("x'" + hex.EncodeToString(v.Bytes()) + "'")
			if SnapshotHeaders {
				sb.WriteString("cap=" + strconv.Itoa(v.Cap()))
			}
			return
		}
		sb.WriteString("[" + strconv.Itoa(v.Len()) + ":")
		if SnapshotHeaders {
			sb.WriteString("cap=" + strconv.Itoa(v.Cap()) + ":")
		}
		for i := 0; i < v.Len(); i++ {
			if i > 0 {
				sb.WriteByte(',')
			}
			snapValue(sb, v.Index(i), depth+1)
		}
		sb.WriteByte(']')
	case reflect.Map:
		if v.IsNil() {
			sb.WriteString("nilmap")
			return
		}
		var ents []string
		it := v.MapRange()
		for it.Next() {
			var e strings.Builder
			snapValue(&e, it.Key(), depth+1)
			e.WriteString("=>")
			snapValue(&e, it.Value(), depth+1)
			ents = append(ents, e.String())
		}
		sort.Strings(ents)
		sb.WriteString("map[" + strconv.Itoa(len(ents)) + ":" + strings.Join(ents, ",") + "]")
	case reflect.String:
		sb.WriteString(strconv.Quote(v.String()))
	case reflect.Bool:
		sb.WriteString(strconv.FormatBool(v.Bool()))
	case reflect.Int, reflect.Int8, reflect.Int16, reflect.Int32, reflect.Int64:
		sb.WriteString(strconv.FormatInt(v.Int(), 10))
	case reflect.Uint, reflect.Uint8, reflect.Uint16, reflect.Uint32, reflect.Uint64:
		sb.WriteString("u" + strconv.FormatUint(v.Uint(), 10))
	case reflect.Float32:
		sb.WriteString("f" + strconv.FormatUint(uint64(math.Float32bits(float32(v.Float()))), 16))
	case reflect.Float64:
		sb.WriteString("d" + strconv.FormatUint(math.Float64bits(v.Float()), 16))
	default:
		sb.WriteString(fmt.Sprintf("<%s>", v.Kind()))
	}
}

// FlipBytes inverts, in place, every byte of every []byte reachable from the generated struct
// (bytes fields in singular, repeated, oneof and map-value position, unknownFields, recursively).
// It returns the number of bytes flipped.
func FlipBytes(p proto.Message) int {
	return flipValue(reflect.ValueOf(p), 0)
}

func flipValue(v reflect.Value, depth int) int {
	if depth > 64 {
		return 0
	}
	n := 0
	switch v.Kind() {
	case reflect.Ptr, reflect.Interface:
		if !v.IsNil() {
			n += flipValue(v.Elem(), depth+1)
		}
	case reflect.Struct:
		t := v.Type()
		for i := 0; i < t.NumField(); i++ {
			f := t.Field(i)
			fv := v.Field(i)
			if f.PkgPath != "" {
				if f.Name != "unknownFields" || !fv.CanAddr() {
					continue
				}
				fv = reflect.NewAt(f.Type, unsafe.Pointer(fv.UnsafeAddr())).Elem()
			}
			n += flipValue(fv, depth+1)
		}
	case reflect.Slice:
		if v.Type().Elem().Kind() == reflect.Uint8 {
			b := v.Bytes()
			for i := range b {
				b[i] ^= 0xff
			}
			return len(b)
		}
		for i := 0; i < v.Len(); i++ {
			n += flipValue(v.Index(i), depth+1)
		}
	case reflect.Map:
		it := v.MapRange()
		for it.Next() {
			n += flipValue(it.Value(), depth+1)
		}
	}
	return n
}

// EmptyNotNil replaces every nil slice, nil map and nil []byte field of the struct (recursively through
// populated message pointers) by an allocated empty one; returns how many it replaced. oneof
// interfaces and message pointers are left alone.
func EmptyNotNil(p proto.Message) int {
	return emptyValue(reflect.ValueOf(p), 0)
}

func emptyValue(v reflect.Value, depth int) int {
	if depth > 64 {
		return 0
	}
	n := 0
	switch v.Kind() {
	case reflect.Ptr, reflect.Interface:
		if !v.IsNil() {
			n += emptyValue(v.Elem(), depth+1)
		}
	case reflect.Struct:
		t := v.Type()
		for i := 0; i < t.NumField(); i++ {
			f := t.Field(i)
			if f.PkgPath != "" {
				continue
			}
			fv := v.Field(i)
			switch fv.Kind() {
			case reflect.Slice:
				if fv.IsNil() && fv.CanSet() {
					fv.Set(reflect.MakeSlice(fv.Type(), 0, 0))
					n++
				} else {
					for j := 0; j < fv.Len(); j++ {
						n += emptyValue(fv.Index(j), depth+1)
					}
				}
			case reflect.Map:
				if fv.IsNil() && fv.CanSet() {
					fv.Set(reflect.MakeMap(fv.Type()))
					n++
				} else {
					it := fv.MapRange()
					for it.Next() {
						n += emptyValue(it.Value(), depth+1)
					}
				}
			default:
				n += emptyValue(fv, depth+1)
			}
		}
	}
	return n
}

// StructFieldFor locates the Go struct field that holds fd (non-oneof) through its protobuf tag.
func StructFieldFor(p proto.Message, num int) reflect.Value {
	v := reflect.ValueOf(p).Elem()
	t := v.Type()
	for i := 0; i < t.NumField(); i++ {
		tag := t.Field(i).Tag.Get("protobuf")
		parts := strings.Split(tag, ",")
		if len(parts) >= 2 {
			if n, err := strconv.Atoi(parts[1]); err == nil && n == num {
				return v.Field(i)
			}
		}
	}
	return reflect.Value{}
}

// InjectNil adds a nil message to the list field / a nil message value (under a key not present yet) to
// the map field numbered num of the generated struct; returns false if the field is not such a field.
func InjectNil(p proto.Message, num int) bool {
	f := StructFieldFor(p, num)
	if !f.IsValid() {
		return false
	}
	switch f.Kind() {
	case reflect.Slice:
		if f.Type().Elem().Kind() != reflect.Ptr {
			return false
		}
		f.Set(reflect.Append(f, reflect.Zero(f.Type().Elem())))
		return true
	case reflect.Map:
		if f.Type().Elem().Kind() != reflect.Ptr {
			return false
		}
		if f.IsNil() {
			f.Set(reflect.MakeMap(f.Type()))
		}
		// a key that sorts after typical alphabet keys and is not present
		k := reflect.New(f.Type().Key()).Elem()
		switch k.Kind() {
		case reflect.String:
			k.SetString("zz-nil-value")
		case reflect.Bool:
			k.SetBool(true)
			if f.MapIndex(k).IsValid() {
				k.SetBool(false)
			}
		case reflect.Int32, reflect.Int64:
			k.SetInt(77)
		case reflect.Uint32, reflect.Uint64:
			k.SetUint(77)
		}
		if f.MapIndex(k).IsValid() {
			return false
		}
		f.SetMapIndex(k, reflect.Zero(f.Type().Elem()))
		return true
	}
	return false
}

// InjectNilKeyLen adds a nil message value under a string key of keyLen bytes to the map<string, message> field num (the
// size of a map entry decides how many bytes its length prefix takes: keys around 122 and 16377 bytes sit at the boundaries).
func InjectNilKeyLen(p proto.Message, num, keyLen int) bool {
	f := StructFieldFor(p, num)
	if !f.IsValid() || f.Kind() != reflect.Map || f.Type().Elem().Kind() != reflect.Ptr || f.Type().Key().Kind() != reflect.String {
		return false
	}
	if f.IsNil() {
		f.Set(reflect.MakeMap(f.Type()))
	}
	k := reflect.New(f.Type().Key()).Elem()
	k.SetString(strings.Repeat("z", keyLen))
	f.SetMapIndex(k, reflect.Zero(f.Type().Elem()))
	return true
}

// InjectNilOneof makes the oneof that fd belongs to hold fd's wrapper with a nil message inside (a state plain Go code
// builds with &T_Member{}). fd must be a oneof member of message kind.
func InjectNilOneof(p proto.Message, fd protoreflect.FieldDescriptor) bool {
	od := fd.ContainingOneof()
	if od == nil || od.IsSynthetic() || fd.Kind() != protoreflect.MessageKind {
		return false
	}
	v := reflect.ValueOf(p).Elem()
	t := v.Type()
	var of reflect.Value
	for i := 0; i < t.NumField(); i++ {
		if t.Field(i).Tag.Get("protobuf_oneof") == string(od.Name()) {
			of = v.Field(i)
		}
	}
	mi := InfoOf(p)
	if !of.IsValid() || mi == nil {
		return false
	}
	for _, w := range mi.OneofWrappers {
		wt := reflect.TypeOf(w)
		if wt.Kind() != reflect.Ptr || wt.Elem().NumField() < 1 {
			continue
		}
		parts := strings.Split(wt.Elem().Field(0).Tag.Get("protobuf"), ",")
		if len(parts) >= 2 {
			if n, err := strconv.Atoi(parts[1]); err == nil && protoreflect.FieldNumber(n) == fd.Number() {
				of.Set(reflect.New(wt.Elem()))
				return true
			}
		}
	}
	return false
}

// InjectTypedNilOneof makes the oneof that fd belongs to hold a nil pointer of fd's wrapper type (the state
// x.Oneof = (*T_Member)(nil) builds; protobuf-go reads it as "oneof not set"). fd must be a oneof member of message kind.
func InjectTypedNilOneof(p proto.Message, fd protoreflect.FieldDescriptor) bool {
	if !InjectNilOneof(p, fd) {
		return false
	}
	v := reflect.ValueOf(p).Elem()
	t := v.Type()
	for i := 0; i < t.NumField(); i++ {
		if t.Field(i).Tag.Get("protobuf_oneof") == string(fd.ContainingOneof().Name()) {
			of := v.Field(i)
			of.Set(reflect.Zero(of.Elem().Type()))
			return true
		}
	}
	return false
}
