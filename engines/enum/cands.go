package enum

import (
	"fmt"
	"strings"

	"google.golang.org/protobuf/encoding/protowire"
	"google.golang.org/protobuf/proto"
	"google.golang.org/protobuf/reflect/protoreflect"
)

// Cand is one way to populate one field (or the unknown-field set) of a message. Apply works on any
// protoreflect.Message with reference semantics; the enumerators only ever apply it to dynamicpb.
type Cand struct {
	Label string
	Rep   bool // one of the (at most two) representatives used when fields are combined
	Apply func(m protoreflect.Message)
}

// Slot is one independently populatable unit of a message: a plain field, or the unknown set.
// Oneof members are separate slots carrying the oneof name; two slots of the same oneof exclude each other.
type Slot struct {
	Name  string
	FD    protoreflect.FieldDescriptor // nil for the unknown slot
	Oneof string
	Cands []Cand
}

type Space struct {
	MD       protoreflect.MessageDescriptor
	Slots    []Slot
	MaxDepth int
}

// Opts bounds the candidate generation.
type Opts struct {
	Top      Level // alphabet level for top-level scalar fields
	MaxDepth int   // nesting depth below the top message that still gets populated sub-values
	NoUnk    bool
}

func clone(v V, fd protoreflect.FieldDescriptor) V {
	if fd.Kind() == protoreflect.BytesKind {
		return protoreflect.ValueOfBytes(append([]byte(nil), v.Bytes()...))
	}
	return v
}

func lbl(fd protoreflect.FieldDescriptor, v V) string {
	s := fmt.Sprint(v.Interface())
	if len(s) > 24 {
		s = fmt.Sprintf("%s..(%d)", s[:12], len(s))
	}
	return s
}

// msgBuilders returns ways to fill a fresh message of type md at nesting depth dep (1 = directly below top).
func msgBuilders(md protoreflect.MessageDescriptor, dep int, o Opts) []Cand {
	out := []Cand{{Label: "{}", Rep: true, Apply: func(m protoreflect.Message) {}}}
	if dep > o.MaxDepth {
		return out
	}
	sub := o
	sub.Top = Reduced
	sp := buildSpace(md, dep, sub)
	for _, s := range sp.Slots {
		n := 0
		for _, c := range s.Cands {
			if !c.Rep {
				continue
			}
			n++
			c := c
			out = append(out, Cand{Label: "{" + s.Name + "=" + c.Label + "}", Rep: len(out) == 1, Apply: c.Apply})
		}
	}
	// a nested value whose own encoding is longer than 127 and than 16383 bytes (multi-byte length prefixes at
	// this nesting position): through a string/bytes field if the type has one, else through unknown data
	if dep == 1 {
		var bigFD protoreflect.FieldDescriptor
		fs := md.Fields()
		for i := 0; i < fs.Len(); i++ {
			f := fs.Get(i)
			if (f.Kind() == protoreflect.StringKind || f.Kind() == protoreflect.BytesKind) && !f.IsList() && !f.IsMap() && f.ContainingOneof() == nil {
				bigFD = f
				break
			}
		}
		fill := func(m protoreflect.Message, n int) {
			if bigFD != nil {
				f := m.Descriptor().Fields().ByNumber(bigFD.Number())
				if f.Kind() == protoreflect.StringKind {
					m.Set(f, protoreflect.ValueOfString(strings.Repeat("q", n)))
				} else {
					m.Set(f, protoreflect.ValueOfBytes([]byte(strings.Repeat("q", n))))
				}
				return
			}
			u := protowire.AppendTag(nil, 1000, protowire.BytesType)
			u = protowire.AppendBytes(u, []byte(strings.Repeat("q", n)))
			m.SetUnknown(u)
		}
		targets := []int{127, 128, 129, 300}
		if o.Top == AllLens {
			targets = append(targets, 16383, 16384, 16385)
		}
		for _, target := range targets {
			// payload length such that the nested message encodes to exactly `target` bytes
			for n := target; n > target-8 && n >= 0; n-- {
				probe := NewDyn(md)
				fill(probe, n)
				if proto.Size(probe) == target {
					n := n
					out = append(out, Cand{Label: fmt.Sprintf("{encoded size %d}", target), Apply: func(m protoreflect.Message) { fill(m, n) }})
					break
				}
			}
		}
	}
	return out
}

// NewSpace computes the slots and candidates of md.
func NewSpace(md protoreflect.MessageDescriptor, o Opts) *Space {
	return buildSpace(md, 0, o)
}

func buildSpace(md protoreflect.MessageDescriptor, dep int, o Opts) *Space {
	sp := &Space{MD: md, MaxDepth: o.MaxDepth}
	fields := md.Fields()
	for i := 0; i < fields.Len(); i++ {
		fd := fields.Get(i)
		s := Slot{Name: string(fd.Name()), FD: fd}
		if od := fd.ContainingOneof(); od != nil && !od.IsSynthetic() {
			s.Oneof = string(od.Name())
		}
		s.Cands = fieldCands(fd, dep, o)
		markReps(s.Cands)
		sp.Slots = append(sp.Slots, s)
	}
	if !o.NoUnk {
		s := Slot{Name: "?unknown"}
		for i, u := range UnknownAlphabet(md, o.Top) {
			u := u
			s.Cands = append(s.Cands, Cand{Label: fmt.Sprintf("unk%d", i), Apply: func(m protoreflect.Message) {
				m.SetUnknown(append(append([]byte(nil), m.GetUnknown()...), u...))
			}})
		}
		markReps(s.Cands)
		sp.Slots = append(sp.Slots, s)
	}
	return sp
}

func markReps(cs []Cand) {
	n := 0
	for i := range cs {
		if cs[i].Rep {
			n++
		}
	}
	if n > 0 {
		return
	}
	// default: first and last candidate
	if len(cs) > 0 {
		cs[0].Rep = true
		cs[len(cs)-1].Rep = true
	}
}

func fieldCands(fd protoreflect.FieldDescriptor, dep int, o Opts) []Cand {
	isMsg := fd.Kind() == protoreflect.MessageKind || fd.Kind() == protoreflect.GroupKind
	inOneof := fd.ContainingOneof() != nil && !fd.ContainingOneof().IsSynthetic()
	var out []Cand
	switch {
	case fd.IsMap():
		kfd, vfd := fd.MapKey(), fd.MapValue()
		keys := ScalarAlphabet(kfd, o.Top)
		keysR := ScalarAlphabet(kfd, Reduced)
		type mv struct {
			label string
			set   func(mp protoreflect.Map, k protoreflect.MapKey)
		}
		var vals, valsR []mv
		if vfd.Kind() == protoreflect.MessageKind {
			for _, b := range msgBuilders(vfd.Message(), dep+1, o) {
				b := b
				x := mv{b.Label, func(mp protoreflect.Map, k protoreflect.MapKey) {
					nv := mp.NewValue()
					b.Apply(nv.Message())
					mp.Set(k, nv)
				}}
				vals = append(vals, x)
				if b.Rep {
					valsR = append(valsR, x)
				}
			}
		} else {
			mk := func(v V) mv {
				return mv{lbl(vfd, v), func(mp protoreflect.Map, k protoreflect.MapKey) { mp.Set(k, clone(v, vfd)) }}
			}
			for _, v := range ScalarAlphabet(vfd, o.Top) {
				vals = append(vals, mk(v))
			}
			r := ScalarAlphabet(vfd, Reduced)
			valsR = append(valsR, mk(r[0]), mk(r[len(r)-1]))
		}
		add := func(label string, rep bool, ks []V, vs []mv) {
			out = append(out, Cand{Label: label, Rep: rep, Apply: func(m protoreflect.Message) {
				mp := m.Mutable(fd).Map()
				for i, k := range ks {
					vs[i].set(mp, k.MapKey())
				}
			}})
		}
		// one entry: every key x representative values; representative key x every value
		for _, k := range keys {
			for _, v := range valsR {
				add(fmt.Sprintf("{%s:%s}", lbl(kfd, k), v.label), false, []V{k}, []mv{v})
			}
		}
		for _, v := range vals {
			add(fmt.Sprintf("{%s:%s}", lbl(kfd, keysR[len(keysR)-1]), v.label), false, []V{keysR[len(keysR)-1]}, []mv{v})
		}
		// two and three entries over reduced keys
		if len(keysR) >= 2 {
			add("2entries", true, []V{keysR[0], keysR[1]}, []mv{valsR[len(valsR)-1], valsR[0]})
		}
		if len(keysR) >= 3 {
			add("3entries", true, []V{keysR[2], keysR[0], keysR[1]}, []mv{valsR[0], valsR[len(valsR)-1], valsR[len(valsR)-1]})
		}
	case fd.IsList():
		if isMsg {
			bs := msgBuilders(fd.Message(), dep+1, o)
			app := func(label string, rep bool, idx ...int) {
				out = append(out, Cand{Label: label, Rep: rep, Apply: func(m protoreflect.Message) {
					l := m.Mutable(fd).List()
					for _, i := range idx {
						e := l.NewElement()
						bs[i].Apply(e.Message())
						l.Append(e)
					}
				}})
			}
			for i, b := range bs {
				app("["+b.Label+"]", false, i)
			}
			last := len(bs) - 1
			app("[{},x]", true, 0, last)
			if len(bs) > 1 {
				app("[x,{},y]", true, 1, 0, last)
			}
			// long lists of pairwise different elements (an element that aliases or repeats another one shows)
			if dep == 0 {
				for _, n := range []int{17, 61, 130} {
					n := n
					out = append(out, Cand{Label: fmt.Sprintf("[%d distinct elements]", n), Apply: func(m protoreflect.Message) {
						l := m.Mutable(fd).List()
						for i := 0; i < n; i++ {
							e := l.NewElement()
							if !distinctInto(e.Message(), i) {
								bs[(i*7+i/5)%len(bs)].Apply(e.Message())
							}
							l.Append(e)
						}
					}})
				}
			}
		} else {
			al := ScalarAlphabet(fd, o.Top)
			r := ScalarAlphabet(fd, Reduced)
			app := func(label string, rep bool, vs ...V) {
				out = append(out, Cand{Label: label, Rep: rep, Apply: func(m protoreflect.Message) {
					l := m.Mutable(fd).List()
					for _, v := range vs {
						l.Append(clone(v, fd))
					}
				}})
			}
			for _, v := range al {
				app("["+lbl(fd, v)+"]", false, v)
			}
			for _, a := range r {
				for _, b := range r {
					app("["+lbl(fd, a)+","+lbl(fd, b)+"]", false, a, b)
				}
			}
			app("[3]", true, r[len(r)-1], r[0], r[1])
			app("[zero]", true, r[0])
			// long lists: packed payloads longer than 127 bytes (two-byte length prefix), many unpacked records
			if dep == 0 {
				for _, n := range []int{16, 32, 128, 130} {
					vs := make([]V, n)
					for i := range vs {
						vs[i] = r[(i+1)%len(r)]
					}
					app(fmt.Sprintf("[%d elements]", n), false, vs...)
				}
			}
		}
	case isMsg:
		for _, b := range msgBuilders(fd.Message(), dep+1, o) {
			b := b
			out = append(out, Cand{Label: b.Label, Rep: b.Rep, Apply: func(m protoreflect.Message) {
				nv := m.NewField(fd)
				b.Apply(nv.Message())
				m.Set(fd, nv)
			}})
		}
	default:
		for _, v := range ScalarAlphabet(fd, o.Top) {
			v := v
			if !inOneof && IsZeroScalar(fd, v) {
				continue // identical to the unpopulated state in proto3
			}
			out = append(out, Cand{Label: lbl(fd, v), Apply: func(m protoreflect.Message) { m.Set(fd, clone(v, fd)) }})
		}
	}
	return out
}

// distinctInto stores a value derived from i in the first scalar field of m able to hold many values.
func distinctInto(m protoreflect.Message, i int) bool {
	fs := m.Descriptor().Fields()
	for k := 0; k < fs.Len(); k++ {
		fd := fs.Get(k)
		if fd.IsList() || fd.IsMap() || fd.ContainingOneof() != nil {
			continue
		}
		switch fd.Kind() {
		case protoreflect.StringKind:
			m.Set(fd, protoreflect.ValueOfString(fmt.Sprintf("e%d", i)))
		case protoreflect.BytesKind:
			m.Set(fd, protoreflect.ValueOfBytes([]byte(fmt.Sprintf("e%d", i))))
		case protoreflect.Int32Kind, protoreflect.Sint32Kind, protoreflect.Sfixed32Kind:
			m.Set(fd, protoreflect.ValueOfInt32(int32(i+1)))
		case protoreflect.Int64Kind, protoreflect.Sint64Kind, protoreflect.Sfixed64Kind:
			m.Set(fd, protoreflect.ValueOfInt64(int64(i+1)))
		case protoreflect.Uint32Kind, protoreflect.Fixed32Kind:
			m.Set(fd, protoreflect.ValueOfUint32(uint32(i+1)))
		case protoreflect.Uint64Kind, protoreflect.Fixed64Kind:
			m.Set(fd, protoreflect.ValueOfUint64(uint64(i+1)))
		case protoreflect.FloatKind:
			m.Set(fd, protoreflect.ValueOfFloat32(float32(i+1)))
		case protoreflect.DoubleKind:
			m.Set(fd, protoreflect.ValueOfFloat64(float64(i+1)))
		default:
			continue
		}
		return true
	}
	return false
}

// Choice picks candidate C of slot S.
type Choice struct {
	S, C int
}

// Case is a message value: the set of populated slots of a Space.
type Case []Choice

func (sp *Space) Label(c Case) string {
	s := string(sp.MD.FullName()) + "{"
	for i, ch := range c {
		if i > 0 {
			s += ", "
		}
		s += sp.Slots[ch.S].Name + "=" + sp.Slots[ch.S].Cands[ch.C].Label
	}
	return s + "}"
}

// BuildDyn materialises the case as a dynamicpb message (the reference value).
func (sp *Space) BuildDyn(c Case) protoreflect.Message {
	d := NewDyn(sp.MD)
	for _, ch := range c {
		sp.Slots[ch.S].Cands[ch.C].Apply(d)
	}
	return d
}

// ForEach enumerates every value with at most `full` populated slots over all candidates, plus every
// value with exactly k populated slots (full < k <= reps) over representative candidates only.
// Slots of the same oneof are never populated together. fn returning false stops the enumeration.
// The Case passed to fn is a fresh copy.
func (sp *Space) ForEach(full, reps int, fn func(Case) bool) bool {
	if !fn(Case{}) {
		return false
	}
	var rec func(start int, cur Case, target int, onlyReps bool) bool
	rec = func(start int, cur Case, target int, onlyReps bool) bool {
		if len(cur) == target {
			return fn(append(Case(nil), cur...))
		}
		for s := start; s < len(sp.Slots); s++ {
			sl := &sp.Slots[s]
			conflict := false
			if sl.Oneof != "" {
				for _, ch := range cur {
					if sp.Slots[ch.S].Oneof == sl.Oneof {
						conflict = true
					}
				}
			}
			if conflict {
				continue
			}
			for c := range sl.Cands {
				if onlyReps && !sl.Cands[c].Rep {
					continue
				}
				if !rec(s+1, append(cur, Choice{s, c}), target, onlyReps) {
					return false
				}
			}
		}
		return true
	}
	for k := 1; k <= full; k++ {
		if !rec(0, nil, k, false) {
			return false
		}
	}
	for k := full + 1; k <= reps; k++ {
		if !rec(0, nil, k, true) {
			return false
		}
	}
	return true
}

// CountUpTo counts the values ForEach would enumerate, giving up (returning limit+1) beyond limit.
func (sp *Space) CountUpTo(full, reps int, limit int64) int64 {
	// closed form over slot candidate counts, ignoring nothing: sum over k-subsets of slots with no two
	// in the same oneof of the product of candidate counts (elementary symmetric polynomial over groups).
	count := func(k int, onlyReps bool) int64 {
		// group slots by oneof; each group contributes at most one slot
		type grp struct{ n int64 }
		var groups []int64
		idx := map[string]int{}
		for _, sl := range sp.Slots {
			var n int64
			for _, c := range sl.Cands {
				if !onlyReps || c.Rep {
					n++
				}
			}
			if sl.Oneof == "" {
				groups = append(groups, n)
			} else if i, ok := idx[sl.Oneof]; ok {
				groups[i] += n
			} else {
				idx[sl.Oneof] = len(groups)
				groups = append(groups, n)
			}
		}
		e := make([]int64, k+1)
		e[0] = 1
		for _, g := range groups {
			for j := k; j >= 1; j-- {
				e[j] += e[j-1] * g
				if e[j] > limit {
					e[j] = limit + 1
				}
			}
		}
		return e[k]
	}
	total := int64(1)
	for k := 1; k <= full; k++ {
		total += count(k, false)
	}
	for k := full + 1; k <= reps; k++ {
		total += count(k, true)
	}
	if total > limit {
		return limit + 1
	}
	return total
}
