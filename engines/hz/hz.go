// Package hz is the shared harness runtime of every engine: flag parsing, parallel enumeration by
// index, distinct-case accounting, violation collection and the report file the orchestrator reads.
package hz

import (
	"strconv"
	"encoding/json"
	"flag"
	"fmt"
	"hash/fnv"
	"os"
	"runtime"
	"runtime/debug"
	"sort"
	"sync"
	"sync/atomic"
	"time"
)

type Violation struct {
	size  int
	Key   string      `json:"key"`   // stable identification of the failing input class (used for known findings)
	What  string      `json:"what"`  // human readable description
	Case  interface{} `json:"case"`  // self-contained replayable case
	Count int64       `json:"count"` // number of evaluated cases that produced this key
}

type Report struct {
	Property     string                 `json:"property_id"`
	Tier         string                 `json:"tier"`
	Evaluations  int64                  `json:"evaluations"`
	Distinct     int64                  `json:"distinct_nontrivial"`
	Rule         string                 `json:"rule"`
	Samples      []interface{}          `json:"samples"`
	Exhaustive   bool                   `json:"exhaustive"`
	Bounds       map[string]interface{} `json:"bounds"`
	CapsHit      []string               `json:"caps_hit"`
	Extra        map[string]interface{} `json:"extra"`
	States       int64                  `json:"states,omitempty"`
	Transitions  int64                  `json:"transitions,omitempty"`
	Traces       int64                  `json:"traces_validated_against_impl,omitempty"`
	Violations   []*Violation           `json:"violations"`
	Assumptions  []string               `json:"assumptions"`
	Internal     string                 `json:"internal,omitempty"` // non-empty => harness problem (exit 2)
	ReplayResult string                 `json:"replay_result,omitempty"`
}

type H struct {
	Prop     string
	Tier     string
	Seed     int64
	Workers  int
	ReportTo string
	Replay   string
	Deadline time.Time
	Rep      Report
	Shard    int
	NShards  int

	mu       sync.Mutex
	vio      map[string]*Violation
	evals    atomic.Int64
	hashes   [][]uint64 // per worker
	hmu      []sync.Mutex
	sampleN  int
	notes    map[string]bool
	timedOut atomic.Bool
	distinctByConstruction atomic.Int64
}

var (
	fProp    = flag.String("prop", "", "property id")
	fTier    = flag.String("tier", "quick", "quick|thorough")
	fSeed    = flag.Int64("seed", 0, "seed (only affects sample choice / shard order)")
	fWorkers = flag.Int("workers", runtime.NumCPU(), "worker goroutines")
	fReport  = flag.String("report", "", "report file")
	fReplay  = flag.String("replay", "", "replay one recorded case")
	fBudget  = flag.Duration("budget", 0, "time budget; enumeration stops (exhaustive:false) when exceeded")
	fShard   = flag.Int("shard", -1, "shard index (engines that shard over processes)")
	fNShards = flag.Int("nshards", 0, "number of shards")
)

func New() *H {
	if !flag.Parsed() {
		flag.Parse()
	}
	h := &H{Prop: *fProp, Tier: *fTier, Seed: *fSeed, Workers: *fWorkers, ReportTo: *fReport, Replay: *fReplay, Shard: *fShard, NShards: *fNShards}
	if h.Workers < 1 {
		h.Workers = 1
	}
	if *fBudget > 0 {
		h.Deadline = time.Now().Add(*fBudget)
	}
	h.vio = map[string]*Violation{}
	h.hashes = make([][]uint64, 64)
	h.hmu = make([]sync.Mutex, 64)
	h.Rep = Report{Property: h.Prop, Tier: h.Tier, Exhaustive: true, Bounds: map[string]interface{}{}, Extra: map[string]interface{}{}}
	h.sampleN = 6
	return h
}

func (h *H) Thorough() bool { return h.Tier == "thorough" }

// Watch registers an operation that must terminate (used for the few cases that could run away, not per evaluation).
// If it is still in flight after the limit (VERIF_WATCHDOG seconds, default 90) the violation is recorded and the
// report written at once: a goroutine spinning in the code under test cannot be interrupted, the process can only exit.
func (h *H) Watch(key, what string, c interface{}) (done func()) {
	limit := 90 * time.Second
	if v := os.Getenv("VERIF_WATCHDOG"); v != "" {
		if n, err := strconv.Atoi(v); err == nil && n > 0 {
			limit = time.Duration(n) * time.Second
		}
	}
	ch := make(chan struct{})
	go func() {
		select {
		case <-ch:
		case <-time.After(limit):
			h.Violate(key, fmt.Sprintf("%s: still running after %v", what, limit), c)
			h.Finish()
		}
	}()
	return func() { close(ch) }
}

// Expired reports whether the time budget is used up; engines poll it between cases.
func (h *H) Expired() bool {
	if h.Deadline.IsZero() {
		return false
	}
	if h.timedOut.Load() {
		return true
	}
	if time.Now().After(h.Deadline) {
		h.timedOut.Store(true)
		return true
	}
	return false
}

func (h *H) Cap(what string) {
	h.mu.Lock()
	defer h.mu.Unlock()
	for _, c := range h.Rep.CapsHit {
		if c == what {
			return
		}
	}
	h.Rep.CapsHit = append(h.Rep.CapsHit, what)
	h.Rep.Exhaustive = false
}

func Hash(parts ...string) uint64 {
	f := fnv.New64a()
	for _, p := range parts {
		f.Write([]byte(p))
		f.Write([]byte{0})
	}
	return f.Sum64()
}

func HashBytes(parts ...[]byte) uint64 {
	f := fnv.New64a()
	for _, p := range parts {
		f.Write(p)
		f.Write([]byte{0xff, 0})
	}
	return f.Sum64()
}

// Eval counts one evaluated case. If nontrivial, its canonical hash enters the distinct set.
func (h *H) Eval(nontrivial bool, canon uint64) {
	h.evals.Add(1)
	if nontrivial {
		s := canon & 63
		h.hmu[s].Lock()
		h.hashes[s] = append(h.hashes[s], canon)
		h.hmu[s].Unlock()
	}
}

func (h *H) EvalN(n int64) { h.evals.Add(n) }

// DistinctN accounts for n cases that are pairwise distinct by construction (e.g. a dense integer
// sweep) and must not be confused with hashed cases; the rule text says so.
func (h *H) DistinctN(n int64) { h.distinctByConstruction.Add(n) }

func (h *H) Sample(s interface{}) {
	h.mu.Lock()
	if len(h.Rep.Samples) < h.sampleN {
		h.Rep.Samples = append(h.Rep.Samples, s)
	}
	h.mu.Unlock()
}

func (h *H) WantSample() bool {
	h.mu.Lock()
	defer h.mu.Unlock()
	return len(h.Rep.Samples) < h.sampleN
}

const maxKeys = 400

func (h *H) Violate(key, what string, c interface{}) {
	h.mu.Lock()
	defer h.mu.Unlock()
	if v, ok := h.vio[key]; ok {
		v.Count++
		return
	}
	if len(h.vio) >= maxKeys {
		if v, ok := h.vio["~overflow"]; ok {
			v.Count++
		} else {
			h.vio["~overflow"] = &Violation{Key: "~overflow", What: "more than " + fmt.Sprint(maxKeys) + " distinct violation keys; first overflow: " + key + ": " + what, Case: c, Count: 1}
		}
		return
	}
	h.vio[key] = &Violation{Key: key, What: what, Case: c, Count: 1}
}

// ViolateMin is Violate that keeps, per key, the case with the smallest size (shortest counterexample).
func (h *H) ViolateMin(key, what string, c interface{}, size int) {
	h.mu.Lock()
	defer h.mu.Unlock()
	if v, ok := h.vio[key]; ok {
		v.Count++
		if size < v.size {
			v.size, v.What, v.Case = size, what, c
		}
		return
	}
	if len(h.vio) >= maxKeys {
		return
	}
	h.vio[key] = &Violation{Key: key, What: what, Case: c, Count: 1, size: size}
}

func (h *H) NViolations() int {
	h.mu.Lock()
	defer h.mu.Unlock()
	return len(h.vio)
}

func (h *H) InternalError(msg string) {
	h.mu.Lock()
	if h.Rep.Internal == "" {
		h.Rep.Internal = msg
	}
	h.mu.Unlock()
}

func (h *H) AddExtra(k string, v interface{}) {
	h.mu.Lock()
	h.Rep.Extra[k] = v
	h.mu.Unlock()
}

// WantNote returns true the first time it is called with a given tag.
func (h *H) WantNote(tag string) bool {
	h.mu.Lock()
	defer h.mu.Unlock()
	if h.notes == nil {
		h.notes = map[string]bool{}
	}
	if h.notes[tag] {
		return false
	}
	h.notes[tag] = true
	return true
}

func (h *H) Counter(k string, d int64) {
	h.mu.Lock()
	c, _ := h.Rep.Extra[k].(int64)
	h.Rep.Extra[k] = c + d
	h.mu.Unlock()
}

// Par runs f(i) for i in [0,n) on h.Workers goroutines (static interleaved partition; union is the
// whole range). Stops early (Cap) if the budget expires. Panics inside f are harness errors unless
// f recovers them itself.
func (h *H) Par(n int64, what string, f func(i int64)) {
	var wg sync.WaitGroup
	w := int64(h.Workers)
	var done atomic.Int64
	for k := int64(0); k < w; k++ {
		wg.Add(1)
		go func(k int64) {
			defer wg.Done()
			defer func() {
				if r := recover(); r != nil {
					h.InternalError(fmt.Sprintf("harness panic in %s: %v\n%s", what, r, debug.Stack()))
				}
			}()
			cnt := 0
			for i := k; i < n; i += w {
				cnt++
				if cnt&255 == 0 && h.Expired() {
					return
				}
				f(i)
				done.Add(1)
			}
		}(k)
	}
	wg.Wait()
	if done.Load() < n {
		h.Cap(fmt.Sprintf("%s: time budget reached after %d of %d", what, done.Load(), n))
	}
}

// ParChunks runs f(lo,hi) over [0,n) split in chunks, for tight loops.
func (h *H) ParChunks(n uint64, chunk uint64, what string, f func(lo, hi uint64)) {
	var next atomic.Uint64
	var wg sync.WaitGroup
	var done atomic.Uint64
	for k := 0; k < h.Workers; k++ {
		wg.Add(1)
		go func() {
			defer wg.Done()
			defer func() {
				if r := recover(); r != nil {
					h.InternalError(fmt.Sprintf("harness panic in %s: %v\n%s", what, r, debug.Stack()))
				}
			}()
			for {
				lo := next.Add(chunk) - chunk
				if lo >= n || h.Expired() {
					return
				}
				hi := lo + chunk
				if hi > n {
					hi = n
				}
				f(lo, hi)
				done.Add(hi - lo)
			}
		}()
	}
	wg.Wait()
	if done.Load() < n {
		h.Cap(fmt.Sprintf("%s: time budget reached after %d of %d", what, done.Load(), n))
	}
}

// Stream runs produce in one goroutine and consume on h.Workers goroutines; items are handed over in
// batches. The producer must stop when emit returns false (time budget reached).
func (h *H) Stream(what string, produce func(emit func(item interface{}) bool), consume func(item interface{})) {
	ch := make(chan []interface{}, 4*h.Workers)
	var wg sync.WaitGroup
	for k := 0; k < h.Workers; k++ {
		wg.Add(1)
		go func() {
			defer wg.Done()
			defer func() {
				if r := recover(); r != nil {
					h.InternalError(fmt.Sprintf("harness panic in %s: %v\n%s", what, r, debug.Stack()))
					for range ch {
					}
				}
			}()
			for batch := range ch {
				for _, it := range batch {
					consume(it)
				}
			}
		}()
	}
	var batch []interface{}
	stopped := false
	n := 0
	emit := func(it interface{}) bool {
		if stopped {
			return false
		}
		batch = append(batch, it)
		if len(batch) >= 128 {
			ch <- batch
			batch = nil
			n++
			if n&7 == 0 && h.Expired() {
				stopped = true
				return false
			}
		}
		return true
	}
	func() {
		defer func() {
			if r := recover(); r != nil {
				h.InternalError(fmt.Sprintf("harness panic in producer of %s: %v\n%s", what, r, debug.Stack()))
			}
		}()
		produce(emit)
	}()
	if len(batch) > 0 {
		ch <- batch
	}
	close(ch)
	wg.Wait()
	if stopped {
		h.Cap(what + ": time budget reached before the enumeration finished")
	}
}

func (h *H) distinct() int64 {
	total := h.distinctByConstruction.Load()
	for s := range h.hashes {
		v := h.hashes[s]
		sort.Slice(v, func(i, j int) bool { return v[i] < v[j] })
		var prev uint64
		for i, x := range v {
			if i == 0 || x != prev {
				total++
			}
			prev = x
		}
	}
	return total
}

// Finish writes the report and exits: 0 no violations, 1 violations, 2 internal.
func (h *H) Finish() {
	h.Rep.Evaluations = h.evals.Load()
	h.Rep.Distinct = h.distinct()
	keys := make([]string, 0, len(h.vio))
	for k := range h.vio {
		keys = append(keys, k)
	}
	sort.Strings(keys)
	h.Rep.Violations = []*Violation{}
	for _, k := range keys {
		h.Rep.Violations = append(h.Rep.Violations, h.vio[k])
	}
	if h.Rep.Samples == nil {
		h.Rep.Samples = []interface{}{}
	}
	if h.Rep.CapsHit == nil {
		h.Rep.CapsHit = []string{}
	}
	if h.Rep.Assumptions == nil {
		h.Rep.Assumptions = []string{}
	}
	b, err := json.MarshalIndent(&h.Rep, "", " ")
	if err != nil {
		fmt.Fprintln(os.Stderr, "INTERNAL: cannot encode report:", err)
		os.Exit(2)
	}
	if h.ReportTo != "" {
		if err := os.WriteFile(h.ReportTo, b, 0o644); err != nil {
			fmt.Fprintln(os.Stderr, "INTERNAL: cannot write report:", err)
			os.Exit(2)
		}
	} else {
		os.Stdout.Write(b)
		fmt.Println()
	}
	if h.Rep.Internal != "" {
		fmt.Fprintln(os.Stderr, "INTERNAL:", h.Rep.Internal)
		os.Exit(2)
	}
	if len(h.Rep.Violations) > 0 {
		os.Exit(1)
	}
	os.Exit(0)
}

// MergeChild folds the report of a shard process into this one.
func (h *H) MergeChild(r *Report) {
	h.EvalN(r.Evaluations)
	h.DistinctN(r.Distinct)
	h.mu.Lock()
	h.Rep.States += r.States
	h.Rep.Transitions += r.Transitions
	h.Rep.Traces += r.Traces
	for _, c := range r.CapsHit {
		dup := false
		for _, x := range h.Rep.CapsHit {
			if x == c {
				dup = true
			}
		}
		if !dup {
			h.Rep.CapsHit = append(h.Rep.CapsHit, c)
		}
		h.Rep.Exhaustive = false
	}
	for _, s := range r.Samples {
		if len(h.Rep.Samples) < h.sampleN {
			h.Rep.Samples = append(h.Rep.Samples, s)
		}
	}
	if r.Internal != "" && h.Rep.Internal == "" {
		h.Rep.Internal = r.Internal
	}
	for k, v := range r.Extra {
		if f, ok := v.(float64); ok {
			c, _ := h.Rep.Extra[k].(int64)
			h.Rep.Extra[k] = c + int64(f)
		}
	}
	h.mu.Unlock()
	for _, v := range r.Violations {
		h.ViolateMin(v.Key, v.What, v.Case, 1<<30)
	}
}

// LoadReplay reads the "case" object of a replay file into v.
func (h *H) LoadReplay(v interface{}) {
	b, err := os.ReadFile(h.Replay)
	if err != nil {
		fmt.Fprintln(os.Stderr, "INTERNAL: cannot read replay:", err)
		os.Exit(2)
	}
	var wrap struct {
		Case json.RawMessage `json:"case"`
	}
	if err := json.Unmarshal(b, &wrap); err != nil || wrap.Case == nil {
		fmt.Fprintln(os.Stderr, "INTERNAL: bad replay file:", err)
		os.Exit(2)
	}
	if err := json.Unmarshal(wrap.Case, v); err != nil {
		fmt.Fprintln(os.Stderr, "INTERNAL: bad replay case:", err)
		os.Exit(2)
	}
}

// Catch runs f and returns the recovered panic value (nil if none) rendered as a string.
func Catch(f func()) (p interface{}) {
	defer func() {
		if r := recover(); r != nil {
			p = r
		}
	}()
	f()
	return nil
}
