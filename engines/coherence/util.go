package main

import "math"

func mathFloat32bits(f float32) uint32 { return math.Float32bits(f) }
func mathFloat64bits(f float64) uint64 { return math.Float64bits(f) }
