// Engine "coherence" (C19): the generated Go API and the registered descriptors are coherent with
// the schema. Exhaustive over every generated package in the binary x every message, enum and field,
// and (for getters / Reset / String) over every <=1-slot value and nil receivers.
package main

import (
	"bytes"
	"compress/gzip"
	"fmt"
	"io"
	"os"
	"path/filepath"
	"reflect"
	"regexp"
	"sort"
	"strconv"
	"strings"

	"github.com/cosmos/cosmos-proto/internal/zzverif/enum"
	"github.com/cosmos/cosmos-proto/internal/zzverif/hz"
	"google.golang.org/protobuf/encoding/prototext"
	"google.golang.org/protobuf/proto"
	"google.golang.org/protobuf/reflect/protodesc"
	"google.golang.org/protobuf/reflect/protoreflect"
	"google.golang.org/protobuf/reflect/protoregistry"
	"google.golang.org/protobuf/types/descriptorpb"
	"google.golang.org/protobuf/types/dynamicpb"
)

type c19case struct {
	File   string `json:"file,omitempty"`
	Name   string `json:"name,omitempty"`
	Oracle string `json:"oracle"`
	Value  string `json:"value,omitempty"`
}

func goNameOf(d protoreflect.Descriptor) string {
	// Go identifier of a message/enum: names of the enclosing messages and its own, CamelCased and joined with "_"
	var parts []string
	for cur := d; cur != nil; cur = cur.Parent() {
		if _, isFile := cur.(protoreflect.FileDescriptor); isFile {
			break
		}
		parts = append([]string{goCamel(string(cur.Name()))}, parts...)
	}
	return strings.Join(parts, "_")
}

// goCamel mirrors protoc-gen-go's GoCamelCase for identifiers.
func goCamel(s string) string {
	var b []byte
	for i := 0; i < len(s); i++ {
		c := s[i]
		switch {
		case c == '.' && i+1 < len(s) && 'a' <= s[i+1] && s[i+1] <= 'z':
			// skip
		case c == '.':
			b = append(b, '_')
		case c == '_' && (i == 0 || s[i-1] == '.'):
			b = append(b, 'X')
		case c == '_' && i+1 < len(s) && 'a' <= s[i+1] && s[i+1] <= 'z':
			// skip
		case '0' <= c && c <= '9':
			b = append(b, c)
		default:
			if 'a' <= c && c <= 'z' {
				c -= 'a' - 'A'
			}
			b = append(b, c)
			for ; i+1 < len(s) && 'a' <= s[i+1] && s[i+1] <= 'z'; i++ {
				b = append(b, s[i+1])
			}
		}
	}
	return string(b)
}

func allMessages(fd protoreflect.FileDescriptor) []protoreflect.MessageDescriptor {
	var out []protoreflect.MessageDescriptor
	var rec func(ms protoreflect.MessageDescriptors)
	rec = func(ms protoreflect.MessageDescriptors) {
		for i := 0; i < ms.Len(); i++ {
			m := ms.Get(i)
			if m.IsMapEntry() {
				continue
			}
			out = append(out, m)
			rec(m.Messages())
		}
	}
	rec(fd.Messages())
	return out
}

func allEnums(fd protoreflect.FileDescriptor) []protoreflect.EnumDescriptor {
	var out []protoreflect.EnumDescriptor
	for i := 0; i < fd.Enums().Len(); i++ {
		out = append(out, fd.Enums().Get(i))
	}
	for _, m := range allMessages(fd) {
		for i := 0; i < m.Enums().Len(); i++ {
			out = append(out, m.Enums().Get(i))
		}
	}
	return out
}

var fieldRe = regexp.MustCompile(`^\s*(?:repeated\s+|optional\s+)?(map\s*<[^>]+>|[\w.]+)\s+(\w+)\s*=\s*(-?\d+)\s*[;\[]`)
var enumValRe = regexp.MustCompile(`^\s*(\w+)\s*=\s*(-?\d+)\s*[;\[]`)
var declRe = regexp.MustCompile(`^\s*(message|enum|oneof)\s+(\w+)\s*\{`)

// scanProto extracts "<full name> = <number>" facts (fields and enum values) and message/enum names
// from proto source text with a line-based scan (good enough for the six checked-in files).
func scanProto(text, pkg string) (facts map[string]int64, decls map[string]string) {
	facts, decls = map[string]int64{}, map[string]string{}
	type frame struct{ kind, name string }
	var stack []frame
	full := func() string {
		n := pkg
		for _, f := range stack {
			if f.kind == "oneof" || f.kind == "other" {
				continue
			}
			if n != "" {
				n += "."
			}
			n += f.name
		}
		return n
	}
	inBlock := false
	for _, line := range strings.Split(text, "\n") {
		if i := strings.Index(line, "//"); i >= 0 {
			line = line[:i]
		}
		if inBlock {
			if j := strings.Index(line, "*/"); j >= 0 {
				line = line[j+2:]
				inBlock = false
			} else {
				continue
			}
		}
		if i := strings.Index(line, "/*"); i >= 0 {
			if j := strings.Index(line[i:], "*/"); j >= 0 {
				line = line[:i] + line[i+j+2:]
			} else {
				line = line[:i]
				inBlock = true
			}
		}
		opens := strings.Count(line, "{")
		closes := strings.Count(line, "}")
		if m := declRe.FindStringSubmatch(line); m != nil {
			stack = append(stack, frame{m[1], m[2]})
			if m[1] != "oneof" {
				decls[full()] = m[1]
			}
			opens--
		} else if len(stack) > 0 {
			top := stack[len(stack)-1]
			if top.kind == "enum" {
				if m := enumValRe.FindStringSubmatch(line); m != nil {
					n, _ := strconv.ParseInt(m[2], 10, 64)
					// enum values are siblings of the enum
					parent := full()
					if i := strings.LastIndex(parent, "."); i >= 0 {
						parent = parent[:i+1]
					} else {
						parent = ""
					}
					facts[parent+m[1]] = n
				}
			} else if top.kind == "message" || top.kind == "oneof" {
				if m := fieldRe.FindStringSubmatch(line); m != nil && m[1] != "option" && m[1] != "returns" {
					n, _ := strconv.ParseInt(m[3], 10, 64)
					facts[full()+"."+m[2]] = n
				}
			}
		}
		for i := 0; i < opens; i++ {
			stack = append(stack, frame{"other", ""})
		}
		for i := 0; i < closes && len(stack) > 0; i++ {
			stack = stack[:len(stack)-1]
		}
	}
	return
}

func checkedInProtoPath(name string) string {
	repo := os.Getenv("VERIF_REPO")
	if repo == "" {
		repo = "/repo"
	}
	for _, c := range []string{filepath.Join(repo, name), filepath.Join(repo, "testpb", name)} {
		if _, err := os.Stat(c); err == nil {
			return c
		}
	}
	return ""
}

func main() {
	h := hz.New()
	if h.Prop != "C19" {
		fmt.Fprintln(os.Stderr, "INTERNAL: engine coherence serves C19 only")
		os.Exit(2)
	}
	filter := os.Getenv("VERIF_TYPES")
	pulsar := map[protoreflect.FullName]bool{}
	files := map[string]protoreflect.FileDescriptor{}
	for _, md := range enum.TypesMatching(filter) {
		pulsar[md.FullName()] = true
		files[md.ParentFile().Path()] = md.ParentFile()
	}
	if len(files) < 3 {
		h.InternalError("vacuous: fewer than 3 generated files in the binary")
		h.Finish()
	}
	var names []string
	for n := range files {
		names = append(names, n)
	}
	sort.Strings(names)
	viol := func(oracle, file, name, what string, val string) {
		h.ViolateMin(fmt.Sprintf("C19/%s/%s", oracle, name), what, c19case{File: file, Name: name, Oracle: oracle, Value: val}, len(val))
	}
	nReq, nScan, nExtVars := 0, 0, 0
	for _, fname := range names {
		fd := files[fname]
		// (a) registered descriptor == schema
		got := protodesc.ToFileDescriptorProto(fd)
		if raw, ok := requestFiles[fname]; ok {
			nReq++
			want := &descriptorpb.FileDescriptorProto{}
			if err := proto.Unmarshal([]byte(raw), want); err != nil {
				h.InternalError("request descriptor does not decode: " + err.Error())
				h.Finish()
			}
			want.SourceCodeInfo = nil
			h.Eval(true, hz.Hash("C19desc", fname))
			if !proto.Equal(got, want) {
				viol("descriptor-differs-from-schema", fname, fname, fmt.Sprintf("the file descriptor registered for %s differs from the schema given to the generator: %s", fname, firstDescDiff(got, want)), "")
			} else {
				gb, _ := proto.MarshalOptions{Deterministic: true}.Marshal(got.GetOptions())
				wb, _ := proto.MarshalOptions{Deterministic: true}.Marshal(want.GetOptions())
				if string(gb) != string(wb) {
					viol("options-differ", fname, fname, "file options differ from the schema", "")
				}
			}
		} else if p := checkedInProtoPath(fname); p != "" {
			nScan++
			b, _ := os.ReadFile(p)
			facts, decls := scanProto(string(b), string(fd.Package()))
			h.Eval(true, hz.Hash("C19scan", fname))
			have := map[string]int64{}
			for _, m := range allMessages(fd) {
				if decls[string(m.FullName())] != "message" {
					viol("descriptor-differs-from-schema", fname, string(m.FullName()), fmt.Sprintf("registered message %s is not declared in %s", m.FullName(), p), "")
				}
				for i := 0; i < m.Fields().Len(); i++ {
					f := m.Fields().Get(i)
					have[string(f.FullName())] = int64(f.Number())
				}
			}
			for _, e := range allEnums(fd) {
				if decls[string(e.FullName())] != "enum" {
					viol("descriptor-differs-from-schema", fname, string(e.FullName()), fmt.Sprintf("registered enum %s is not declared in %s", e.FullName(), p), "")
				}
				for i := 0; i < e.Values().Len(); i++ {
					v := e.Values().Get(i)
					have[string(v.FullName())] = int64(v.Number())
				}
			}
			for k, n := range facts {
				if hn, ok := have[k]; !ok || hn != n {
					viol("descriptor-differs-from-schema", fname, k, fmt.Sprintf("%s declares %s = %d; the registered descriptor has %v (present=%v)", p, k, n, hn, ok), "")
				}
			}
			for k, n := range have {
				if fn, ok := facts[k]; !ok || fn != n {
					viol("descriptor-differs-from-schema", fname, k, fmt.Sprintf("registered descriptor has %s = %d; %s declares %v (present=%v)", k, n, p, fn, ok), "")
				}
			}
		}
		// imports are the registered files, not placeholders left behind by an initialisation-order accident
		for i := 0; i < fd.Imports().Len(); i++ {
			imp := fd.Imports().Get(i)
			h.Eval(true, hz.Hash("C19import", fname, imp.Path()))
			if imp.IsPlaceholder() {
				viol("placeholder-import", fname, fname+"->"+imp.Path(), fmt.Sprintf("the descriptor registered for %s holds a placeholder for its import %s (the imported file was not resolved when the file was built)", fname, imp.Path()), "")
			} else if reg, err := protoregistry.GlobalFiles.FindFileByPath(imp.Path()); err != nil || reg != imp.FileDescriptor {
				viol("placeholder-import", fname, fname+"->"+imp.Path(), fmt.Sprintf("import %s of %s is not the file the registry holds under that path (err %v)", imp.Path(), fname, err), "")
			}
		}
		// service methods point at the registered request / response messages themselves
		for i := 0; i < fd.Services().Len(); i++ {
			sd := fd.Services().Get(i)
			for j := 0; j < sd.Methods().Len(); j++ {
				m := sd.Methods().Get(j)
				for side, t := range map[string]protoreflect.MessageDescriptor{"input": m.Input(), "output": m.Output()} {
					h.Eval(true, hz.Hash("C19method", string(m.FullName()), side))
					reg, err := protoregistry.GlobalFiles.FindDescriptorByName(t.FullName())
					if t.IsPlaceholder() || err != nil || reg != protoreflect.Descriptor(t) {
						viol("method-type-not-the-registered-message", fname, string(m.FullName())+"/"+side, fmt.Sprintf("the %s type %s of method %s is not the descriptor the registry holds under that name (placeholder=%v, err %v)", side, t.FullName(), m.FullName(), t.IsPlaceholder(), err), "")
					}
				}
			}
		}
		// extension fields the file declares: reachable through the type registry under their full name, backed by this
		// file's own descriptor, and the exported E_ variable that protoc-gen-go's naming rules give each of them IS that type
		var xds []protoreflect.ExtensionDescriptor
		for i := 0; i < fd.Extensions().Len(); i++ {
			xds = append(xds, fd.Extensions().Get(i))
		}
		for _, md := range allMessages(fd) {
			for i := 0; i < md.Extensions().Len(); i++ {
				xds = append(xds, md.Extensions().Get(i))
			}
		}
		for _, xd := range xds {
			full := string(xd.FullName())
			h.Eval(true, hz.Hash("C19ext", full))
			xt, err := protoregistry.GlobalTypes.FindExtensionByName(xd.FullName())
			if err != nil {
				viol("extension-not-registered", fname, full, fmt.Sprintf("extension field %s declared by %s is not in the type registry: %v", full, fname, err), "")
				continue
			}
			if xt.TypeDescriptor().Descriptor() != xd || xt.TypeDescriptor().FullName() != xd.FullName() || xt.TypeDescriptor().Number() != xd.Number() {
				viol("extension-type-differs", fname, full, fmt.Sprintf("the extension type registered as %s describes %s = %d, not the field %s = %d of the registered file", full, xt.TypeDescriptor().FullName(), xt.TypeDescriptor().Number(), full, xd.Number()), "")
			}
			if v, ok := extVars[full]; ok {
				nExtVars++
				if v != xt || v.TypeDescriptor().FullName() != xd.FullName() {
					viol("extension-variable-denotes-another-extension", fname, full, fmt.Sprintf("the Go variable generated for extension %s denotes %s = %d", full, v.TypeDescriptor().FullName(), v.TypeDescriptor().Number()), "")
				}
			}
		}
		// (b) registries, types
		for _, md := range allMessages(fd) {
			checkMessageType(h, fname, md, viol)
			checkFieldTypes(h, fname, md, viol)
			if pulsar[md.FullName()] {
				md := md
				if p := hz.Catch(func() { checkValues(h, fname, md, viol) }); p != nil {
					viol("panic", fname, string(md.FullName()), fmt.Sprintf("getter / Reset / String checks on %s panicked (protobuf-go cannot work with the registered descriptors): %v", md.FullName(), p), "")
				}
			}
		}
		for _, ed := range allEnums(fd) {
			checkEnum(h, fname, ed, viol)
		}
	}
	h.Rep.Bounds["files"] = names
	h.Rep.Bounds["files_compared_with_request_descriptors"] = nReq
	h.Rep.Bounds["extension_variables_checked"] = nExtVars
	h.Rep.Bounds["checked_in_files_compared_with_proto_source_scan"] = nScan
	h.Sample(map[string]interface{}{"file": names[0], "oracles": "descriptor==schema, registry lookups, Descriptor identity, Type/New/Zero Go types, getters (incl. nil receiver) vs Get, Reset, String round trip, enum String/Number/Descriptor/Type"})
	h.Rep.Rule = "every generated file in the binary (checked-in packages, freshly generated mx, and - inside C12 - the schema corpus) x every message, enum and field; getters/Reset/String over every <=1-slot value (boundary alphabet) and nil receivers; finite and complete for the packages present; distinct = hash(oracle, symbol, value)"
	h.Rep.Assumptions = []string{"for freshly generated packages the schema is the exact FileDescriptorProto sent to the plugin; for the six checked-in files (no protoc available) it is a line-based scan of the committed .proto text: every message, enum, field number and enum value number must match both ways", "Go identifier of a nested declaration = CamelCased enclosing names joined with '_' (protoc-gen-go convention)"}
	h.Finish()
}

func firstDescDiff(a, b *descriptorpb.FileDescriptorProto) string {
	as, bs := prototext.Format(a), prototext.Format(b)
	la, lb := strings.Split(as, "\n"), strings.Split(bs, "\n")
	for i := 0; i < len(la) && i < len(lb); i++ {
		if la[i] != lb[i] {
			return fmt.Sprintf("first difference at line %d: registered %q, schema %q", i+1, strings.TrimSpace(la[i]), strings.TrimSpace(lb[i]))
		}
	}
	return fmt.Sprintf("lengths differ: %d vs %d lines", len(la), len(lb))
}

type violFn func(oracle, file, name, what string, val string)

func checkMessageType(h *hz.H, fname string, md protoreflect.MessageDescriptor, viol violFn) {
	name := string(md.FullName())
	h.Eval(true, hz.Hash("C19msg", name))
	mt, err := protoregistry.GlobalTypes.FindMessageByName(md.FullName())
	if err != nil {
		viol("registry", fname, name, fmt.Sprintf("GlobalTypes.FindMessageByName(%s): %v", name, err), "")
		return
	}
	if d, err := protoregistry.GlobalFiles.FindDescriptorByName(md.FullName()); err != nil || d != protoreflect.Descriptor(md) {
		viol("registry", fname, name, fmt.Sprintf("GlobalFiles.FindDescriptorByName(%s) does not return the file's own descriptor (err %v)", name, err), "")
	}
	if mt.Descriptor() != md {
		viol("registry-type-descriptor", fname, name, fmt.Sprintf("the type registered as %s describes %s", name, mt.Descriptor().FullName()), "")
	}
	p := hz.Catch(func() {
		nm := mt.New()
		goT := reflect.TypeOf(nm.Interface())
		wantName := goNameOf(md)
		if goT.Kind() != reflect.Ptr || goT.Elem().Name() != wantName {
			viol("registry-go-type", fname, name, fmt.Sprintf("GlobalTypes maps %s to Go type %v; expected *%s", name, goT, wantName), "")
		}
		fresh := reflect.New(goT.Elem()).Interface().(proto.Message)
		if bad := legacyPath(fresh, "Descriptor", md, false); bad != "" {
			viol("legacy-descriptor-path", fname, name, fmt.Sprintf("Go type %v: %s", goT, bad), "")
		}
		m := fresh.ProtoReflect()
		if m.Descriptor() != md {
			viol("descriptor-identity", fname, name, fmt.Sprintf("(%v).ProtoReflect().Descriptor() is not the registry's descriptor of %s (it describes %s)", goT, name, m.Descriptor().FullName()), "")
		}
		if m.Type().Descriptor() != md {
			viol("descriptor-identity", fname, name, fmt.Sprintf("Type().Descriptor() of %v describes %s", goT, m.Type().Descriptor().FullName()), "")
		}
		for what, x := range map[string]protoreflect.Message{"Type().New()": m.Type().New(), "New()": m.New(), "Type().Zero()": m.Type().Zero(), "registry Zero()": mt.Zero()} {
			if reflect.TypeOf(x.Interface()) != goT {
				viol("type-new-zero", fname, name, fmt.Sprintf("%s of %s yields Go type %v, want %v", what, name, reflect.TypeOf(x.Interface()), goT), "")
			}
			isZero := strings.Contains(what, "Zero")
			if x.IsValid() == isZero {
				viol("type-new-zero", fname, name, fmt.Sprintf("%s of %s: IsValid()=%v", what, name, x.IsValid()), "")
			}
			if isZero && !reflect.ValueOf(x.Interface()).IsNil() {
				viol("type-new-zero", fname, name, fmt.Sprintf("%s of %s is not a nil pointer", what, name), "")
			}
		}
		nilM := reflect.Zero(goT).Interface().(proto.Message)
		if nilM.ProtoReflect().Descriptor() != md {
			viol("descriptor-identity", fname, name, fmt.Sprintf("nil %v reports descriptor %s", goT, nilM.ProtoReflect().Descriptor().FullName()), "")
		}
	})
	if p != nil {
		viol("panic", fname, name, fmt.Sprintf("type checks on %s panicked: %v", name, p), "")
	}
}

// checkFieldTypes: the message / enum descriptor a field reports is the very one the registry holds.
func checkFieldTypes(h *hz.H, fname string, md protoreflect.MessageDescriptor, viol violFn) {
	fs := md.Fields()
	for i := 0; i < fs.Len(); i++ {
		fd := fs.Get(i)
		var d protoreflect.Descriptor
		var placeholder bool
		switch {
		case fd.Message() != nil:
			d, placeholder = fd.Message(), fd.Message().IsPlaceholder()
		case fd.Enum() != nil:
			d, placeholder = fd.Enum(), fd.Enum().IsPlaceholder()
		default:
			continue
		}
		if fd.IsMap() {
			continue // the synthetic entry message; its value field is reached through MapValue below
		}
		h.Eval(true, hz.Hash("C19fieldtype", string(fd.FullName())))
		if placeholder {
			viol("placeholder-field-type", fname, string(fd.FullName()), fmt.Sprintf("field %s reports a placeholder for its type %s instead of the registered descriptor", fd.FullName(), d.FullName()), "")
			continue
		}
		if reg, err := protoregistry.GlobalFiles.FindDescriptorByName(d.FullName()); err != nil || reg != d {
			viol("field-type-identity", fname, string(fd.FullName()), fmt.Sprintf("the type descriptor of field %s (%s) is not the one the registry holds under that name (err %v)", fd.FullName(), d.FullName(), err), "")
		}
	}
	for i := 0; i < md.Messages().Len(); i++ {
		if nm := md.Messages().Get(i); nm.IsMapEntry() {
			checkFieldTypes(h, fname, nm, viol)
		}
	}
}

// legacyPath checks the deprecated Descriptor() / EnumDescriptor() method of the plain Go API: (gzipped file descriptor,
// index path). The bytes must decode to the file's descriptor and the path must lead to this very declaration.
func legacyPath(v interface{}, method string, want protoreflect.Descriptor, isEnum bool) string {
	m := reflect.ValueOf(v).MethodByName(method)
	if !m.IsValid() || m.Type().NumIn() != 0 || m.Type().NumOut() != 2 {
		return "" // not generated: nothing to check
	}
	out := m.Call(nil)
	gz, ok1 := out[0].Interface().([]byte)
	path, ok2 := out[1].Interface().([]int)
	if !ok1 || !ok2 {
		return ""
	}
	zr, err := gzip.NewReader(bytes.NewReader(gz))
	if err != nil {
		return fmt.Sprintf("%s() returns bytes that are not gzip data: %v", method, err)
	}
	raw, err := io.ReadAll(zr)
	if err != nil {
		return fmt.Sprintf("%s() returns a corrupt gzip stream: %v", method, err)
	}
	fdp := &descriptorpb.FileDescriptorProto{}
	if err := proto.Unmarshal(raw, fdp); err != nil {
		return fmt.Sprintf("%s() returns bytes that do not decode as a file descriptor: %v", method, err)
	}
	if fdp.GetName() != want.ParentFile().Path() {
		return fmt.Sprintf("%s() returns the descriptor of file %q, want %q", method, fdp.GetName(), want.ParentFile().Path())
	}
	if len(path) == 0 {
		return method + "() returns an empty index path"
	}
	name := fdp.GetPackage()
	var msgs []*descriptorpb.DescriptorProto = fdp.MessageType
	var enums []*descriptorpb.EnumDescriptorProto = fdp.EnumType
	for i, ix := range path {
		last := i == len(path)-1
		if last && isEnum {
			if ix < 0 || ix >= len(enums) {
				return fmt.Sprintf("%s() index path %v leaves the descriptor at step %d", method, path, i)
			}
			name += "." + enums[ix].GetName()
			break
		}
		if ix < 0 || ix >= len(msgs) {
			return fmt.Sprintf("%s() index path %v leaves the descriptor at step %d", method, path, i)
		}
		name += "." + msgs[ix].GetName()
		enums = msgs[ix].EnumType
		msgs = msgs[ix].NestedType
	}
	name = strings.TrimPrefix(name, ".")
	if name != string(want.FullName()) {
		return fmt.Sprintf("%s() index path %v leads to %s, not to %s", method, path, name, want.FullName())
	}
	return ""
}

func checkEnum(h *hz.H, fname string, ed protoreflect.EnumDescriptor, viol violFn) {
	name := string(ed.FullName())
	h.Eval(true, hz.Hash("C19enum", name))
	et, err := protoregistry.GlobalTypes.FindEnumByName(ed.FullName())
	if err != nil {
		viol("registry", fname, name, fmt.Sprintf("GlobalTypes.FindEnumByName(%s): %v", name, err), "")
		return
	}
	if et.Descriptor() != ed {
		viol("registry-type-descriptor", fname, name, fmt.Sprintf("the enum type registered as %s describes %s", name, et.Descriptor().FullName()), "")
	}
	p := hz.Catch(func() {
		nums := []protoreflect.EnumNumber{}
		for i := 0; i < ed.Values().Len(); i++ {
			nums = append(nums, ed.Values().Get(i).Number())
		}
		nums = append(nums, 12345, -777)
		for _, n := range nums {
			e := et.New(n)
			goT := reflect.TypeOf(e)
			if goT.Name() != goNameOf(ed) {
				viol("registry-go-type", fname, name, fmt.Sprintf("enum %s maps to Go type %v; expected %s", name, goT, goNameOf(ed)), "")
				return
			}
			if e.Number() != n {
				viol("enum-number", fname, name, fmt.Sprintf("%s: New(%d).Number() = %d", name, n, e.Number()), "")
			}
			if n == nums[0] {
				if bad := legacyPath(e, "EnumDescriptor", ed, true); bad != "" {
					viol("legacy-descriptor-path", fname, name, fmt.Sprintf("Go enum %v: %s", goT, bad), "")
				}
			}
			if e.Descriptor() != ed || e.Type().Descriptor() != ed {
				viol("enum-descriptor", fname, name, fmt.Sprintf("Go enum %v reports descriptor %s; the schema says %s", goT, e.Descriptor().FullName(), name), "")
			}
			want := strconv.Itoa(int(n))
			if v := ed.Values().ByNumber(n); v != nil {
				want = string(v.Name())
			}
			if s, ok := e.(fmt.Stringer); !ok || s.String() != want {
				got := "<no String method>"
				if ok {
					got = s.String()
				}
				viol("enum-string", fname, name, fmt.Sprintf("%s value %d: String() = %q, the schema says %q", name, n, got, want), "")
			}
		}
	})
	if p != nil {
		viol("panic", fname, name, fmt.Sprintf("enum checks on %s panicked: %v", name, p), "")
	}
}

func tagNumber(tag string) int {
	parts := strings.Split(tag, ",")
	if len(parts) >= 2 {
		if n, err := strconv.Atoi(parts[1]); err == nil {
			return n
		}
	}
	return 0
}

func renderGo(fd protoreflect.FieldDescriptor, v reflect.Value) string {
	// render a getter result like enum.Canon renders the reflection value
	switch v.Kind() {
	case reflect.Ptr:
		if pm, ok := v.Interface().(proto.Message); ok {
			if v.IsNil() {
				return "msg{valid=false {}}"
			}
			return fmt.Sprintf("msg{valid=true %s}", enum.Canon(enum.Slow(pm), true))
		}
	case reflect.Slice:
		if v.Type().Elem().Kind() == reflect.Uint8 && !fd.IsList() {
			return fmt.Sprintf("x%x", v.Bytes())
		}
		var parts []string
		for i := 0; i < v.Len(); i++ {
			parts = append(parts, renderGo(elemFD{fd}, v.Index(i)))
		}
		return fmt.Sprintf("list[%s]", strings.Join(parts, ","))
	case reflect.Map:
		var parts []string
		it := v.MapRange()
		for it.Next() {
			parts = append(parts, renderGo(elemFD{fd.MapKey()}, it.Key())+"=>"+renderGo(elemFD{fd.MapValue()}, it.Value()))
		}
		sort.Strings(parts)
		return fmt.Sprintf("map[%s]", strings.Join(parts, ","))
	case reflect.String:
		return strconv.Quote(v.String())
	case reflect.Bool:
		return fmt.Sprint(v.Bool())
	case reflect.Int32, reflect.Int64:
		return fmt.Sprint(v.Int())
	case reflect.Uint32, reflect.Uint64:
		return fmt.Sprintf("u%d", v.Uint())
	case reflect.Float32:
		return fmt.Sprintf("f%x", mathFloat32bits(float32(v.Float())))
	case reflect.Float64:
		return fmt.Sprintf("d%x", mathFloat64bits(v.Float()))
	}
	return fmt.Sprintf("?%v", v.Kind())
}

// elemFD wraps a field descriptor so that list elements render as singular values.
type elemFD struct{ protoreflect.FieldDescriptor }

func (e elemFD) IsList() bool { return false }
func (e elemFD) IsMap() bool  { return false }

func renderRef(fd protoreflect.FieldDescriptor, v protoreflect.Value) string {
	switch {
	case fd.IsList():
		var parts []string
		for i := 0; i < v.List().Len(); i++ {
			parts = append(parts, renderRef(elemFD{fd}, v.List().Get(i)))
		}
		return fmt.Sprintf("list[%s]", strings.Join(parts, ","))
	case fd.IsMap():
		var parts []string
		v.Map().Range(func(k protoreflect.MapKey, mv protoreflect.Value) bool {
			parts = append(parts, renderRef(elemFD{fd.MapKey()}, k.Value())+"=>"+renderRef(elemFD{fd.MapValue()}, mv))
			return true
		})
		sort.Strings(parts)
		return fmt.Sprintf("map[%s]", strings.Join(parts, ","))
	}
	switch fd.Kind() {
	case protoreflect.MessageKind:
		return fmt.Sprintf("msg{valid=%v %s}", v.Message().IsValid(), enum.Canon(v.Message(), false))
	case protoreflect.BytesKind:
		return fmt.Sprintf("x%x", v.Bytes())
	case protoreflect.StringKind:
		return strconv.Quote(v.String())
	case protoreflect.BoolKind:
		return fmt.Sprint(v.Bool())
	case protoreflect.EnumKind:
		return fmt.Sprint(int64(v.Enum()))
	case protoreflect.Int32Kind, protoreflect.Sint32Kind, protoreflect.Sfixed32Kind, protoreflect.Int64Kind, protoreflect.Sint64Kind, protoreflect.Sfixed64Kind:
		return fmt.Sprint(v.Int())
	case protoreflect.Uint32Kind, protoreflect.Fixed32Kind, protoreflect.Uint64Kind, protoreflect.Fixed64Kind:
		return fmt.Sprintf("u%d", v.Uint())
	case protoreflect.FloatKind:
		return fmt.Sprintf("f%x", mathFloat32bits(float32(v.Float())))
	case protoreflect.DoubleKind:
		return fmt.Sprintf("d%x", mathFloat64bits(v.Float()))
	}
	return "?"
}

func checkValues(h *hz.H, fname string, md protoreflect.MessageDescriptor, viol violFn) {
	name := string(md.FullName())
	sp := enum.NewSpace(md, enum.Opts{Top: enum.Boundary, MaxDepth: 1})
	goT := reflect.TypeOf(enum.NewGo(md))
	// getter method per field, found through the struct tags (no naming rule is assumed)
	type getter struct {
		fd     protoreflect.FieldDescriptor
		method string
	}
	var getters []getter
	st := goT.Elem()
	for i := 0; i < st.NumField(); i++ {
		f := st.Field(i)
		if n := tagNumber(f.Tag.Get("protobuf")); n != 0 {
			if fd := md.Fields().ByNumber(protoreflect.FieldNumber(n)); fd != nil {
				getters = append(getters, getter{fd, "Get" + f.Name})
			}
		}
	}
	mi := enum.InfoByName(md.FullName())
	for _, w := range mi.OneofWrappers {
		wt := reflect.TypeOf(w).Elem()
		if wt.NumField() > 0 {
			if n := tagNumber(wt.Field(0).Tag.Get("protobuf")); n != 0 {
				if fd := md.Fields().ByNumber(protoreflect.FieldNumber(n)); fd != nil {
					getters = append(getters, getter{fd, "Get" + wt.Field(0).Name})
				}
			}
		}
	}
	if len(getters) != md.Fields().Len() {
		viol("getters", fname, name, fmt.Sprintf("%s: %d getters located through struct tags for %d fields", name, len(getters), md.Fields().Len()), "")
	}
	eval := func(g proto.Message, d protoreflect.Message, label string) {
		h.Eval(true, hz.Hash("C19val", name, label))
		p := hz.Catch(func() {
			rvp := reflect.ValueOf(g)
			for _, gt := range getters {
				m := rvp.MethodByName(gt.method)
				if !m.IsValid() {
					viol("getter-missing", fname, name, fmt.Sprintf("%s has no method %s for field %s", goT, gt.method, gt.fd.Name()), label)
					continue
				}
				out := m.Call(nil)
				got := renderGo(gt.fd, out[0])
				want := renderRef(gt.fd, d.Get(gt.fd))
				fast := renderRef(gt.fd, g.ProtoReflect().Get(gt.fd))
				if gt.fd.Kind() == protoreflect.EnumKind && !gt.fd.IsList() && !gt.fd.IsMap() {
					got = fmt.Sprint(out[0].Int())
				}
				if gt.fd.Kind() == protoreflect.EnumKind && gt.fd.IsList() {
					var parts []string
					for i := 0; i < out[0].Len(); i++ {
						parts = append(parts, fmt.Sprint(out[0].Index(i).Int()))
					}
					got = fmt.Sprintf("list[%s]", strings.Join(parts, ","))
				}
				if got != want || fast != want {
					viol("getter-vs-get", fname, name, fmt.Sprintf("%s.%s() on %s returns %s; reflection Get returns %s (generated) / %s (reference)", goT.Elem().Name(), gt.method, label, clip(got), clip(fast), clip(want)), label)
				}
			}
		})
		if p != nil {
			viol("getter-panic", fname, name, fmt.Sprintf("getters of %s on %s panicked: %v", name, label, p), label)
		}
	}
	// nil receiver
	eval(enum.NilGo(md), dynamicpb.NewMessageType(md).Zero(), "nil receiver")
	sp.ForEach(1, 1, func(c enum.Case) bool {
		d := sp.BuildDyn(c)
		g := enum.BuildGo(d)
		label := sp.Label(c)
		eval(g, d, label)
		// String renders text that parses back to an equal message
		if s, ok := g.(fmt.Stringer); ok {
			txt := s.String()
			back := enum.NewDyn(md)
			refTxt := prototext.MarshalOptions{}.Format(d.Interface())
			refBack := enum.NewDyn(md)
			e1 := prototext.Unmarshal([]byte(txt), back)
			e2 := prototext.Unmarshal([]byte(refTxt), refBack)
			if e2 == nil && (e1 != nil || enum.Canon(back, false) != enum.Canon(refBack, false)) {
				viol("string-roundtrip", fname, name, fmt.Sprintf("String() of %s renders %q, which does not parse back to the message (err %v)", label, clip(txt), e1), label)
			}
		} else {
			viol("string-missing", fname, name, fmt.Sprintf("%v has no String method", goT), label)
		}
		// Reset empties the message
		if r, ok := g.(interface{ Reset() }); ok {
			r.Reset()
			if c := enum.Canon(enum.Slow(g), true); c != "{}" {
				viol("reset", fname, name, fmt.Sprintf("Reset() of %s leaves %s", label, clip(c)), label)
			}
		} else {
			viol("reset-missing", fname, name, fmt.Sprintf("%v has no Reset method", goT), label)
		}
		return true
	})
}

func clip(s string) string {
	if len(s) > 160 {
		return s[:160] + "…"
	}
	return s
}
