// Engine "wirespace": bounded exhaustive enumeration of well-typed wire streams (record sequences)
// for every pulsar type. Serves C03 (decode == reference, merge laws) and C14 (unknown fields).
package main

import (
	"encoding/hex"
	"fmt"
	"os"
	"strings"

	"github.com/cosmos/cosmos-proto/internal/zzverif/enum"
	"github.com/cosmos/cosmos-proto/internal/zzverif/hz"
	"google.golang.org/protobuf/proto"
	"google.golang.org/protobuf/reflect/protoreflect"
)

type wcase struct {
	Type    string   `json:"type"`
	Records []string `json:"records_hex"`
	Labels  []string `json:"labels"`
	Classes []string `json:"classes"`
	Base    string   `json:"merge_base_hex,omitempty"` // reference encoding of the pre-populated message ("" = fresh)
	Discard bool     `json:"discard_unknown,omitempty"`
	Mode    string   `json:"mode"`
}

func findType(name string) protoreflect.MessageDescriptor {
	for _, md := range enum.PulsarTypes() {
		if string(md.FullName()) == name {
			return md
		}
	}
	return nil
}

func concat(recs [][]byte) []byte {
	var b []byte
	for _, r := range recs {
		b = append(b, r...)
	}
	return b
}

func clip(b []byte) string {
	if len(b) > 80 {
		return hex.EncodeToString(b[:80]) + "…"
	}
	return hex.EncodeToString(b)
}

func clips(s string) string {
	if len(s) > 300 {
		return s[:300] + "…"
	}
	return s
}

func main() {
	h := hz.New()
	switch h.Prop {
	case "C03", "C07":
		runC03(h)
	case "C14":
		runC14(h)
	default:
		fmt.Fprintln(os.Stderr, "INTERNAL: engine wirespace does not serve", h.Prop)
		os.Exit(2)
	}
	h.Finish()
}

// decodeBoth decodes stream into a generated message (pre-populated from base if base != nil, with
// Merge:true) and into the dynamicpb reference, and compares the observable values.
// Returns (ok, refAccepted, canonical reference value).
type finding struct {
	key, what string
	wc        wcase
}

// sink receives findings; quiet sinks are used while minimising a failing sequence.
type sink struct {
	h     *hz.H
	quiet bool
	found []finding
}

func (s *sink) Violate(key, what string, wc wcase) {
	s.found = append(s.found, finding{key, what, wc})
}

func (s *sink) Eval(nontrivial bool, hash uint64) {
	if !s.quiet {
		s.h.Eval(nontrivial, hash)
	}
}

func (s *sink) Counter(k string, d int64) {
	if !s.quiet {
		s.h.Counter(k, d)
	}
}

// oracleOf strips the record classes from a key: "C03/fresh/<classes>@T/panic" -> "C03/fresh//panic"
func oracleOf(key string) string {
	i := strings.Index(key, "/")
	j := strings.Index(key[i+1:], "/")
	k := strings.LastIndex(key, "@")
	l := strings.Index(key[k:], "/")
	tail := ""
	if l >= 0 {
		tail = key[k+l:]
	}
	return key[:i+1+j] + tail
}

func decodeBoth(h *sink, md protoreflect.MessageDescriptor, stream []byte, base []byte, discard bool, key string, what string, wc wcase) (bool, bool, string) {
	var g proto.Message
	d := enum.NewDyn(md)
	opts := proto.UnmarshalOptions{Merge: base != nil, DiscardUnknown: discard}
	if base != nil {
		if err := proto.Unmarshal(base, d); err != nil {
			h.h.InternalError("merge base does not decode: " + err.Error())
			return false, false, ""
		}
		g = enum.BuildGo(d)
	} else {
		g = enum.NewGo(md)
	}
	derr := opts.Unmarshal(stream, d)
	var gerr error
	in := append([]byte(nil), stream...)
	if p := hz.Catch(func() { gerr = opts.Unmarshal(in, g) }); p != nil {
		h.Violate(key+"/panic", fmt.Sprintf("%s: Unmarshal panicked on %s: %v (reference: err=%v)", what, clip(stream), p, derr), wc)
		return false, derr == nil, ""
	}
	if derr != nil {
		// the reference rejects the stream: it is not in the property's domain (C06 judges totality)
		return true, false, ""
	}
	if gerr != nil {
		h.Violate(key+"/rejected", fmt.Sprintf("%s: generated decoder rejects a stream the reference accepts: %v; stream %s", what, gerr, clip(stream)), wc)
		return false, true, ""
	}
	want := enum.Canon(d, false)
	got := enum.Canon(enum.Slow(g), true)
	if got != want {
		h.Violate(key+"/value", fmt.Sprintf("%s: decoded value differs from the reference for stream %s\n reference %s\n generated %s", what, clip(stream), clips(want), clips(got)), wc)
		return false, true, want
	}
	return true, true, want
}

func classKey(prop, oracle string, md protoreflect.MessageDescriptor, classes []string) string {
	return fmt.Sprintf("%s/%s/%s@%s", prop, oracle, strings.Join(classes, " + "), md.FullName())
}
