package main

import "github.com/cosmos/cosmos-proto/internal/zzverif/hz"

func runC14(h *hz.H) { h.InternalError("C14 not built yet") }
