package main

import (
	"bytes"
	"encoding/hex"
	"fmt"
	"os"
	"strings"

	"github.com/cosmos/cosmos-proto/internal/zzverif/enum"
	"github.com/cosmos/cosmos-proto/internal/zzverif/hz"
	"google.golang.org/protobuf/encoding/protowire"
	"google.golang.org/protobuf/proto"
	"google.golang.org/protobuf/reflect/protoreflect"
)

// A stream is parsed, with the schema, into a tree of levels so that unknown records can be
// inserted at every record boundary of every nesting level and the enclosing lengths recomputed.
type node struct {
	md    protoreflect.MessageDescriptor
	shape string // how this level is reached from the top, e.g. "top", "top>message/singular", ...
	recs  []nrec
}

type nrec struct {
	raw []byte // leaf: complete record
	tag []byte // non-leaf: tag of a known length-delimited message field ...
	sub *node  // ... whose payload is this level
	// map<_,message> entry: tag + entry whose value (field 2) is a level
	entryPre, entryPost []byte // entry body before / after the value record's payload (incl. value tag in pre)
	isEntry             bool
}

func parseLevel(b []byte, md protoreflect.MessageDescriptor, shape string, depth int) (*node, bool) {
	n := &node{md: md, shape: shape}
	for len(b) > 0 {
		num, wt, tl := protowire.ConsumeTag(b)
		if tl < 0 {
			return nil, false
		}
		vl := protowire.ConsumeFieldValue(num, wt, b[tl:])
		if vl < 0 {
			return nil, false
		}
		rec := b[:tl+vl]
		fd := md.Fields().ByNumber(num)
		if fd != nil && wt == protowire.BytesType && fd.Kind() == protoreflect.MessageKind && depth < 6 {
			payload, _ := protowire.ConsumeBytes(b[tl:])
			if fd.IsMap() {
				if fd.MapValue().Kind() == protoreflect.MessageKind {
					// locate the (last) value record inside the entry
					e := payload
					off := 0
					vs, ve := -1, -1
					for off < len(e) {
						en, ewt, etl := protowire.ConsumeTag(e[off:])
						if etl < 0 {
							return nil, false
						}
						evl := protowire.ConsumeFieldValue(en, ewt, e[off+etl:])
						if evl < 0 {
							return nil, false
						}
						if en == 2 && ewt == protowire.BytesType {
							vs, ve = off+etl, off+etl+evl
						}
						off += etl + evl
					}
					if vs >= 0 {
						vp, _ := protowire.ConsumeBytes(e[vs:ve])
						sub, ok := parseLevel(vp, fd.MapValue().Message(), shape+">"+shapeName(fd), depth+1)
						if !ok {
							return nil, false
						}
						n.recs = append(n.recs, nrec{tag: b[:tl], sub: sub, isEntry: true, entryPre: append([]byte(nil), e[:vs]...), entryPost: append([]byte(nil), e[ve:]...)})
						b = b[tl+vl:]
						continue
					}
				}
			} else {
				sub, ok := parseLevel(payload, fd.Message(), shape+">"+shapeName(fd), depth+1)
				if !ok {
					return nil, false
				}
				n.recs = append(n.recs, nrec{tag: append([]byte(nil), b[:tl]...), sub: sub})
				b = b[tl+vl:]
				continue
			}
		}
		n.recs = append(n.recs, nrec{raw: append([]byte(nil), rec...)})
		b = b[tl+vl:]
	}
	return n, true
}

func shapeName(fd protoreflect.FieldDescriptor) string {
	s := "message/singular"
	switch {
	case fd.IsMap():
		s = "map<" + fd.MapKey().Kind().String() + ",message>-value"
	case fd.IsList():
		s = "message/list-element"
	}
	if od := fd.ContainingOneof(); od != nil && !od.IsSynthetic() {
		s = "message/oneof-member"
	}
	return s
}

type inj struct {
	level *node
	pos   int
	rec   []byte
}

func (n *node) serialize(injs []inj) []byte {
	var out []byte
	emitInj := func(pos int) {
		for _, in := range injs {
			if in.level == n && in.pos == pos {
				out = append(out, in.rec...)
			}
		}
	}
	for i, r := range n.recs {
		emitInj(i)
		switch {
		case r.sub == nil:
			out = append(out, r.raw...)
		case r.isEntry:
			val := r.sub.serialize(injs)
			var e []byte
			e = append(e, r.entryPre...)
			e = protowire.AppendBytes(e, val)
			e = append(e, r.entryPost...)
			out = append(out, r.tag...)
			out = protowire.AppendBytes(out, e)
		default:
			out = append(out, r.tag...)
			out = protowire.AppendBytes(out, r.sub.serialize(injs))
		}
	}
	emitInj(len(n.recs))
	return out
}

func (n *node) levels(out *[]*node) {
	*out = append(*out, n)
	for _, r := range n.recs {
		if r.sub != nil {
			r.sub.levels(out)
		}
	}
}

// unknownsWithKnownNumbers walks a decoded message (slow view) and reports any unknown record whose
// field number is declared at that level.
func unknownsWithKnownNumbers(m protoreflect.Message, path string) string {
	m = enum.Rewrap(m)
	u := m.GetUnknown()
	for len(u) > 0 {
		num, _, n := protowire.ConsumeField(u)
		if n < 0 {
			return path + ": unknown set is not a sequence of well-formed records"
		}
		if m.Descriptor().Fields().ByNumber(num) != nil {
			return fmt.Sprintf("%s: known field number %d stored in the unknown set", path, num)
		}
		u = u[n:]
	}
	res := ""
	m.Range(func(fd protoreflect.FieldDescriptor, v protoreflect.Value) bool {
		if fd.Kind() != protoreflect.MessageKind {
			return true
		}
		switch {
		case fd.IsMap():
			if fd.MapValue().Kind() == protoreflect.MessageKind {
				v.Map().Range(func(k protoreflect.MapKey, mv protoreflect.Value) bool {
					res = unknownsWithKnownNumbers(mv.Message(), path+"."+string(fd.Name()))
					return res == ""
				})
			}
		case fd.IsList():
			for i := 0; i < v.List().Len() && res == ""; i++ {
				res = unknownsWithKnownNumbers(v.List().Get(i).Message(), path+"."+string(fd.Name()))
			}
		default:
			res = unknownsWithKnownNumbers(v.Message(), path+"."+string(fd.Name()))
		}
		return res == ""
	})
	return res
}

type c14case struct {
	Type    string   `json:"type"`
	Base    string   `json:"base_stream_hex"`
	BaseLbl string   `json:"base_label"`
	Levels  []string `json:"levels"`
	Pos     []int    `json:"positions"`
	Recs    []string `json:"injected_records_hex"`
	LvlIdx  []int    `json:"level_indexes"`
	Mode    string   `json:"mode"`
}

func evalInjection(h *hz.H, md protoreflect.MessageDescriptor, base []byte, baseLbl string, root *node, lv []*node, injs []inj, idxs []int) {
	stream := root.serialize(injs)
	cc := c14case{Type: string(md.FullName()), Base: hex.EncodeToString(base), BaseLbl: baseLbl, Mode: "inject"}
	var classes []string
	for i, in := range injs {
		cc.Levels = append(cc.Levels, in.level.shape)
		cc.Pos = append(cc.Pos, in.pos)
		cc.Recs = append(cc.Recs, hex.EncodeToString(in.rec))
		cc.LvlIdx = append(cc.LvlIdx, idxs[i])
		_, wt, _ := protowire.ConsumeTag(in.rec)
		where := "middle"
		if in.pos == 0 {
			where = "first"
		} else if in.pos == len(in.level.recs) {
			where = "last"
		}
		classes = append(classes, fmt.Sprintf("%s:wiretype%d:%s", strings.TrimPrefix(in.level.shape, "top>"), wt, where))
	}
	key := func(oracle string) string {
		return fmt.Sprintf("C14/%s/%s@%s", oracle, strings.Join(classes, " + "), md.FullName())
	}
	h.Eval(true, hz.HashBytes([]byte("C14"), []byte(md.FullName()), stream))
	// reference
	d := enum.NewDyn(md)
	if err := proto.Unmarshal(stream, d); err != nil {
		h.InternalError(fmt.Sprintf("reference rejects an injected stream %x: %v", stream, err))
		return
	}
	want := enum.Canon(d, false)
	// keep
	g := enum.NewGo(md)
	var err error
	if p := hz.Catch(func() { err = proto.Unmarshal(append([]byte(nil), stream...), g) }); p != nil || err != nil {
		h.Violate(key("keep/decode-failed"), fmt.Sprintf("decoding %s (base %s, unknown records injected at %v) failed: panic=%v err=%v", clip(stream), baseLbl, cc.Levels, p, err), cc)
		return
	}
	if got := enum.Canon(enum.Slow(g), true); got != want {
		h.Violate(key("keep/value"), fmt.Sprintf("unknown records not kept exactly where they occurred for stream %s (base %s, injected at %v):\n reference %s\n generated %s", clip(stream), baseLbl, cc.Levels, clips(want), clips(got)), cc)
		return
	}
	if bad := unknownsWithKnownNumbers(enum.Slow(g), "top"); bad != "" {
		h.Violate(key("keep/known-in-unknown"), fmt.Sprintf("stream %s: %s", clip(stream), bad), cc)
		return
	}
	refBytes, _ := proto.MarshalOptions{Deterministic: true}.Marshal(d)
	var out []byte
	if p := hz.Catch(func() { out, err = proto.MarshalOptions{Deterministic: true}.Marshal(g) }); p != nil || err != nil || !bytes.Equal(out, refBytes) {
		h.Violate(key("keep/re-encode"), fmt.Sprintf("re-encoding after decoding %s differs from the reference (known fields then the unknown bytes unchanged at each level): panic=%v err=%v\n generated %s\n reference %s", clip(stream), p, err, clip(out), clip(refBytes)), cc)
		return
	}
	// discard
	dd := enum.NewDyn(md)
	if err := (proto.UnmarshalOptions{DiscardUnknown: true}).Unmarshal(stream, dd); err != nil {
		h.InternalError("reference rejects stream in discard mode")
		return
	}
	wantD := enum.Canon(dd, false)
	gd := enum.NewGo(md)
	if p := hz.Catch(func() {
		err = proto.UnmarshalOptions{DiscardUnknown: true}.Unmarshal(append([]byte(nil), stream...), gd)
	}); p != nil || err != nil {
		h.Violate(key("discard/decode-failed"), fmt.Sprintf("DiscardUnknown decode of %s failed: panic=%v err=%v", clip(stream), p, err), cc)
		return
	}
	gotD := enum.Canon(enum.Slow(gd), true)
	if strings.Contains(gotD, "?:") {
		h.Violate(key("discard/survivor"), fmt.Sprintf("an unknown record survived DiscardUnknown for stream %s: %s", clip(stream), clips(gotD)), cc)
		return
	}
	if gotD != wantD {
		h.Violate(key("discard/value"), fmt.Sprintf("DiscardUnknown changed something other than unknown fields for stream %s:\n reference %s\n generated %s", clip(stream), clips(wantD), clips(gotD)), cc)
		return
	}
	// the same with a recursion limit at, just above and just below the stream's nesting depth: wherever both decoders
	// accept, nothing unknown survives (the option must reach the message decoded with the last unit of budget too)
	if len(injs) == 1 {
		for limit := 1; limit <= 5; limit++ {
			o := proto.UnmarshalOptions{DiscardUnknown: true, RecursionLimit: limit}
			dl := enum.NewDyn(md)
			if o.Unmarshal(stream, dl) != nil {
				continue
			}
			gl := enum.NewGo(md)
			var el error
			if p := hz.Catch(func() { el = o.Unmarshal(append([]byte(nil), stream...), gl) }); p != nil || el != nil {
				continue // agreement on the limit itself is C06's business
			}
			if gotL := enum.Canon(enum.Slow(gl), true); strings.Contains(gotL, "?:") || gotL != enum.Canon(dl, false) {
				h.Violate(key(fmt.Sprintf("discard/recursion-limit=%d", limit)), fmt.Sprintf("DiscardUnknown with RecursionLimit %d on stream %s: generated %s, reference %s", limit, clip(stream), clips(gotL), clips(enum.Canon(dl, false))), cc)
				return
			}
		}
	}
	// and it equals the discard-decode of the base stream without the injected records
	gb := enum.NewGo(md)
	if p := hz.Catch(func() { err = proto.UnmarshalOptions{DiscardUnknown: true}.Unmarshal(append([]byte(nil), base...), gb) }); p == nil && err == nil {
		if gotB := enum.Canon(enum.Slow(gb), true); gotB != gotD {
			h.Violate(key("discard/differs-from-base"), fmt.Sprintf("with DiscardUnknown, the stream with injected unknown records decodes differently from the stream without them:\n with    %s\n without %s", clips(gotD), clips(gotB)), cc)
			return
		}
	}
	if h.WantSample() && len(injs) == 2 {
		h.Sample(map[string]interface{}{"type": cc.Type, "base": baseLbl, "injected_at": cc.Levels, "positions": cc.Pos, "records_hex": cc.Recs, "stream_hex": clip(stream)})
	}
}

// setUnknownRoundTrip checks GetUnknown/SetUnknown on a populated message.
func setUnknownRoundTrip(h *hz.H, md protoreflect.MessageDescriptor, base []byte, baseLbl string, u []byte) {
	cc := c14case{Type: string(md.FullName()), Base: hex.EncodeToString(base), BaseLbl: baseLbl, Recs: []string{hex.EncodeToString(u)}, Mode: "setunknown"}
	key := func(o string) string { return fmt.Sprintf("C14/setunknown/%s@%s", o, md.FullName()) }
	h.Eval(true, hz.HashBytes([]byte("C14su"), []byte(md.FullName()), base, u))
	d := enum.NewDyn(md)
	if err := (proto.UnmarshalOptions{DiscardUnknown: true}).Unmarshal(base, d); err != nil {
		return
	}
	g := enum.BuildGo(d)
	noUnk, _ := proto.MarshalOptions{Deterministic: true}.Marshal(d)
	var got, gotSlow, enc, enc2 []byte
	var after []byte
	p := hz.Catch(func() {
		f := g.ProtoReflect()
		f.SetUnknown(protoreflect.RawFields(append([]byte(nil), u...)))
		got = f.GetUnknown()
		gotSlow = enum.Slow(g).GetUnknown()
		enc, _ = proto.MarshalOptions{Deterministic: true}.Marshal(g)
		f.SetUnknown(nil)
		after = f.GetUnknown()
		enc2, _ = proto.MarshalOptions{Deterministic: true}.Marshal(g)
	})
	if p != nil {
		h.Violate(key("panic"), fmt.Sprintf("SetUnknown/GetUnknown panicked: %v", p), cc)
		return
	}
	if !bytes.Equal(got, u) || !bytes.Equal(gotSlow, u) {
		h.Violate(key("get-differs"), fmt.Sprintf("SetUnknown(%x) then GetUnknown() = %x (struct holds %x)", u, got, gotSlow), cc)
		return
	}
	if !bytes.Equal(enc, append(append([]byte(nil), noUnk...), u...)) {
		h.Violate(key("marshal"), fmt.Sprintf("after SetUnknown(%x) the encoding is not known-fields followed by exactly those bytes: %s", u, clip(enc)), cc)
		return
	}
	if len(after) != 0 || !bytes.Equal(enc2, noUnk) {
		h.Violate(key("clear"), fmt.Sprintf("SetUnknown(nil) left %x / encoding %s", after, clip(enc2)), cc)
	}
}

// setUnknownHistory: SetUnknown(u1) (or a decode that stores u1); the caller keeps what GetUnknown returns;
// SetUnknown(u2). The set must have been *replaced*: the kept slice and both arguments still read as before,
// GetUnknown returns exactly u2 and the encoding ends with exactly u2. Run on the generated message and on
// both references (struct reflection over a second struct, dynamicpb); judged where the references agree.
func setUnknownHistory(h *hz.H, md protoreflect.MessageDescriptor, base []byte, baseLbl string, u1, u2 []byte, viaDecode bool) {
	mode := "setunknown-history"
	if viaDecode {
		mode = "setunknown-after-decode"
	}
	cc := c14case{Type: string(md.FullName()), Base: hex.EncodeToString(base), BaseLbl: baseLbl, Recs: []string{hex.EncodeToString(u1), hex.EncodeToString(u2)}, Mode: mode}
	h.Eval(true, hz.HashBytes([]byte("C14"+mode), []byte(md.FullName()), base, u1, []byte{0xff}, u2))
	d := enum.NewDyn(md)
	if err := (proto.UnmarshalOptions{DiscardUnknown: true}).Unmarshal(base, d); err != nil {
		return
	}
	noUnk, _ := proto.MarshalOptions{Deterministic: true}.Marshal(d)
	run := func(m protoreflect.Message, whole proto.Message) (res string) {
		if p := hz.Catch(func() {
			in1 := append([]byte(nil), u1...)
			if viaDecode {
				if err := (proto.UnmarshalOptions{Merge: true}).Unmarshal(append([]byte(nil), u1...), whole); err != nil {
					res = "decode-error"
					return
				}
			} else {
				m.SetUnknown(protoreflect.RawFields(in1))
			}
			kept := m.GetUnknown()
			keptWas := append([]byte(nil), kept...)
			var in2 []byte
			if u2 != nil {
				in2 = append([]byte(nil), u2...)
			}
			m.SetUnknown(protoreflect.RawFields(in2))
			now := m.GetUnknown()
			enc, _ := proto.MarshalOptions{Deterministic: true}.Marshal(whole)
			res = fmt.Sprintf("kept-slice-unchanged=%v first-argument-unchanged=%v second-argument-unchanged=%v kept-was=%x get=%x encoding-tail-ok=%v",
				bytes.Equal(kept, keptWas), bytes.Equal(in1, u1), bytes.Equal(in2, u2), keptWas, []byte(now), bytes.Equal(enc, append(append([]byte(nil), noUnk...), u2...)))
		}); p != nil {
			res = fmt.Sprintf("PANIC %v", p)
		}
		return
	}
	g := enum.BuildGo(d)
	s := enum.BuildGo(d)
	dd := enum.NewDyn(md)
	proto.Merge(dd, d)
	rs := run(enum.Slow(s), enum.Slow(s).Interface())
	rd := run(dd, dd)
	if rs != rd {
		h.Counter("setunknown_histories_where_references_disagree_not_judged", 1)
		return
	}
	if rf := run(g.ProtoReflect(), g); rf != rd {
		h.Violate(fmt.Sprintf("C14/%s@%s", mode, md.FullName()), fmt.Sprintf("%s on %s (base %s): first set %x, GetUnknown kept by the caller, then SetUnknown(%x): generated %s; references %s", mode, md.FullName(), baseLbl, u1, u2, rf, rd), cc)
	}
}

// mergeDiscardHistory: a message that already holds unknown fields (top level: u1; its first populated singular message
// field: that type's first unknown record) receives a Merge decode with DiscardUnknown of a stream that carries unknown
// records at both levels (u2; the nested type's second unknown record). DiscardUnknown drops what the stream brings and
// nothing else: the unknown fields held before stay, as in the reference.
func mergeDiscardHistory(h *hz.H, md protoreflect.MessageDescriptor, base []byte, baseLbl string, u1, u2 []byte) {
	cc := c14case{Type: string(md.FullName()), Base: hex.EncodeToString(base), BaseLbl: baseLbl, Recs: []string{hex.EncodeToString(u1), hex.EncodeToString(u2)}, Mode: "merge-discard-after-unknowns"}
	h.Eval(true, hz.HashBytes([]byte("C14mergediscard"), []byte(md.FullName()), base, u1, []byte{0xff}, u2))
	run := func(whole proto.Message) (res string) {
		if p := hz.Catch(func() {
			if err := (proto.UnmarshalOptions{DiscardUnknown: true}).Unmarshal(append([]byte(nil), base...), whole); err != nil {
				res = "base-error"
				return
			}
			m := whole.ProtoReflect()
			m.SetUnknown(append([]byte(nil), u1...))
			stream := append([]byte(nil), u2...)
			var sub protoreflect.Message
			fs := m.Descriptor().Fields()
			for i := 0; i < fs.Len() && sub == nil; i++ {
				fd := fs.Get(i)
				if fd.Message() != nil && !fd.IsList() && !fd.IsMap() && m.Has(fd) && enum.IsPulsar(fd.Message()) {
					sub = m.Mutable(fd).Message()
					nu := enum.UnknownAlphabet(fd.Message(), enum.Reduced)
					sub.SetUnknown(append([]byte(nil), nu[0]...))
					stream = protowire.AppendBytes(protowire.AppendTag(stream, protowire.Number(fd.Number()), protowire.BytesType), nu[1])
				}
			}
			err := proto.UnmarshalOptions{Merge: true, DiscardUnknown: true}.Unmarshal(stream, whole)
			enc, _ := proto.MarshalOptions{Deterministic: true}.Marshal(whole)
			var nested []byte
			if sub != nil {
				nested = sub.GetUnknown()
			}
			res = fmt.Sprintf("err=%v unknown-at-top=%x unknown-in-nested=%x encoding=%x", err != nil, []byte(m.GetUnknown()), nested, enc)
		}); p != nil {
			res = fmt.Sprintf("PANIC %v", p)
		}
		return
	}
	rd := run(enum.NewDyn(md).Interface())
	if strings.HasPrefix(rd, "PANIC") || rd == "base-error" {
		return
	}
	if rf := run(enum.NewGo(md)); rf != rd {
		h.Violate(fmt.Sprintf("C14/merge-discard-after-unknowns@%s", md.FullName()), fmt.Sprintf("%s (base %s) holding unknown fields %x (and its first message field its own), then Unmarshal{Merge, DiscardUnknown} of a stream with unknown records at both levels:\n generated %s\n reference %s", md.FullName(), baseLbl, u1, clips(rf), clips(rd)), cc)
	}
}

func runC14(h *hz.H) {
	if h.Replay != "" {
		var cc c14case
		h.LoadReplay(&cc)
		md := findType(cc.Type)
		if md == nil {
			h.InternalError("replay: type not in this binary: " + cc.Type)
			return
		}
		base, _ := hex.DecodeString(cc.Base)
		if cc.Mode == "setunknown" {
			u, _ := hex.DecodeString(cc.Recs[0])
			setUnknownRoundTrip(h, md, base, cc.BaseLbl, u)
		} else if cc.Mode == "merge-discard-after-unknowns" {
			u1, _ := hex.DecodeString(cc.Recs[0])
			u2, _ := hex.DecodeString(cc.Recs[1])
			mergeDiscardHistory(h, md, base, cc.BaseLbl, u1, u2)
		} else if strings.HasPrefix(cc.Mode, "setunknown-") {
			u1, _ := hex.DecodeString(cc.Recs[0])
			u2, _ := hex.DecodeString(cc.Recs[1])
			if cc.Recs[1] == "" {
				u2 = nil
			}
			setUnknownHistory(h, md, base, cc.BaseLbl, u1, u2, cc.Mode == "setunknown-after-decode")
		} else {
			root, ok := parseLevel(base, md, "top", 0)
			if !ok {
				h.InternalError("replay: base stream does not parse")
				return
			}
			var lv []*node
			root.levels(&lv)
			var injs []inj
			for i := range cc.Recs {
				r, _ := hex.DecodeString(cc.Recs[i])
				injs = append(injs, inj{level: lv[cc.LvlIdx[i]], pos: cc.Pos[i], rec: r})
			}
			evalInjection(h, md, base, cc.BaseLbl, root, lv, injs, cc.LvlIdx)
		}
		h.Eval(true, 1)
		h.Eval(true, 2)
		return
	}
	types := enum.TypesMatching(os.Getenv("VERIF_TYPES"))
	if len(types) < 5 {
		h.InternalError(fmt.Sprintf("vacuous: only %d pulsar types found", len(types)))
		return
	}
	type baseS struct {
		md    protoreflect.MessageDescriptor
		bytes []byte
		label string
	}
	var bases []baseS
	var names []string
	baseCap := 500
	if os.Getenv("VERIF_LITE") != "" {
		baseCap = 150
	}
	for _, md := range types {
		sp := enum.NewSpace(md, enum.Opts{Top: enum.Reduced, MaxDepth: 2})
		n0 := len(bases)
		seen := map[string]bool{}
		sp.ForEach(1, 1, func(c enum.Case) bool {
			d := sp.BuildDyn(c)
			b, err := proto.MarshalOptions{Deterministic: true}.Marshal(d.Interface())
			if err == nil && !seen[string(b)] && len(b) <= baseCap {
				seen[string(b)] = true
				bases = append(bases, baseS{md, b, sp.Label(c)})
			}
			return true
		})
		ra := enum.RecordAlphabet(md, false)
		for _, r := range ra {
			if !seen[string(r.Bytes)] {
				seen[string(r.Bytes)] = true
				bases = append(bases, baseS{md, r.Bytes, "record " + r.Label})
			}
		}
		// a singular / oneof message field arriving in two pieces: unknown records of both pieces accumulate in one message
		for _, r1 := range ra {
			for _, r2 := range ra {
				if r1.Num == r2.Num && strings.Contains(r1.Class, ":submessage") && strings.Contains(r2.Class, ":submessage") && r1.Class == r2.Class {
					b := append(append([]byte(nil), r1.Bytes...), r2.Bytes...)
					if !seen[string(b)] && len(b) <= baseCap {
						seen[string(b)] = true
						bases = append(bases, baseS{md, b, "records " + r1.Label + " + " + r2.Label})
					}
				}
			}
		}
		names = append(names, fmt.Sprintf("%s: %d base streams", md.FullName(), len(bases)-n0))
	}
	h.Rep.Bounds["types"] = names
	two := 2 // unknown records used for double injections
	if h.Thorough() {
		two = 4
	}
	h.Rep.Bounds["unknown_alphabet_single_injection"] = "varint, bytes, fixed32, fixed64(max field number), group with nested group, non-minimal varint, two records, a number known one level up"
	h.Rep.Bounds["unknown_records_used_in_double_injections"] = two
	var levelShapes = map[string]bool{}
	h.Stream("unknown-field injections", func(emit func(interface{}) bool) {
		for i := range bases {
			if !emit(i) {
				return
			}
		}
	}, func(it interface{}) {
		bs := bases[it.(int)]
		root, ok := parseLevel(bs.bytes, bs.md, "top", 0)
		if !ok {
			h.InternalError(fmt.Sprintf("base stream does not parse: %x", bs.bytes))
			return
		}
		var lv []*node
		root.levels(&lv)
		// per level: the unknown alphabet of that level (+ a number known in the parent but not here)
		type point struct {
			li, pos int
			rec     []byte
		}
		var pts, ptsSmall []point
		for li, l := range lv {
			alpha := enum.UnknownAlphabet(l.md, enum.Boundary)
			if li > 0 {
				// a field number that is known at the top level but not at this one
				fs := bs.md.Fields()
				for k := 0; k < fs.Len(); k++ {
					if l.md.Fields().ByNumber(fs.Get(k).Number()) == nil {
						alpha = append(alpha, protowire.AppendVarint(protowire.AppendTag(nil, fs.Get(k).Number(), protowire.VarintType), 5))
						break
					}
				}
			}
			for pos := 0; pos <= len(l.recs); pos++ {
				for ai, a := range alpha {
					pts = append(pts, point{li, pos, a})
					// pairs: over the first 8 levels and the last one (long lists have one level per element)
					if (ai < two || ai == 4 && two > 2) && (li < 8 || li == len(lv)-1) {
						ptsSmall = append(ptsSmall, point{li, pos, a})
					}
				}
			}
		}
		for _, p := range pts {
			evalInjection(h, bs.md, bs.bytes, bs.label, root, lv, []inj{{lv[p.li], p.pos, p.rec}}, []int{p.li})
		}
		for a := 0; a < len(ptsSmall); a++ {
			for b := a; b < len(ptsSmall); b++ {
				p, q := ptsSmall[a], ptsSmall[b]
				evalInjection(h, bs.md, bs.bytes, bs.label, root, lv, []inj{{lv[p.li], p.pos, p.rec}, {lv[q.li], q.pos, q.rec}}, []int{p.li, q.li})
			}
		}
		ua := enum.UnknownAlphabet(bs.md, enum.Boundary)
		for _, u := range ua {
			setUnknownRoundTrip(h, bs.md, bs.bytes, bs.label, u)
		}
		if it.(int)%8 == 0 || len(bs.bytes) == 0 {
			// ordered pairs (longer-then-shorter and shorter-then-longer both occur), nil as the second
			for _, u1 := range ua {
				for _, u2 := range append(append([][]byte(nil), ua...), nil) {
					setUnknownHistory(h, bs.md, bs.bytes, bs.label, u1, u2, false)
					setUnknownHistory(h, bs.md, bs.bytes, bs.label, u1, u2, true)
				}
			}
			for _, u1 := range ua[:3] {
				for _, u2 := range ua[:3] {
					mergeDiscardHistory(h, bs.md, bs.bytes, bs.label, u1, u2)
				}
			}
		}
		h.Counter("nesting_levels_injected_into", int64(len(lv)))
		_ = levelShapes
	})
	h.Rep.Rule = "base streams = reference encodings (<= 500 bytes) of every <=1-slot value (reduced alphabet, nesting depth 2) + every single record of the C03 alphabet + every two-piece split of a singular / oneof message field, per pulsar type; each is parsed with the schema into nesting levels (top, singular message, list element, map value, oneof member); ONE unknown record from that level's unknown alphabet at EVERY record boundary of EVERY level, and every PAIR of injections over a reduced alphabet (first 8 levels and the last one of long lists); DiscardUnknown off and on; plus SetUnknown/GetUnknown round trips and every ordered pair history SetUnknown-or-decode(u1); keep GetUnknown; SetUnknown(u2) on every 8th base stream; all cases non-trivial; distinct = hash(type, injected stream)"
	h.Rep.Assumptions = []string{"dynamicpb (protobuf-go v1.34.0) is the reference for where unknown records are stored and how they are re-emitted", "unknown records injected inside map *entries* (not map values) are C03's business: the reference drops them"}
}
