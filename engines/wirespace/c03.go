package main

import (
	"encoding/hex"
	"fmt"
	"os"

	"github.com/cosmos/cosmos-proto/internal/zzverif/enum"
	"github.com/cosmos/cosmos-proto/internal/zzverif/hz"
	"google.golang.org/protobuf/proto"
	"google.golang.org/protobuf/reflect/protoreflect"
)

// mergeBases returns reference encodings of a few pre-populated values of md (representative
// candidates of alternating slots), used as targets of Merge:true decodes.
func mergeBases(md protoreflect.MessageDescriptor) [][]byte {
	sp := enum.NewSpace(md, enum.Opts{Top: enum.Reduced, MaxDepth: 1})
	var out [][]byte
	for variant := 0; variant < 2; variant++ {
		d := enum.NewDyn(md)
		used := map[string]bool{}
		for si, sl := range sp.Slots {
			if sl.Oneof != "" {
				if used[sl.Oneof] {
					continue
				}
				// variant 0 takes the first member, variant 1 the last member of each oneof
				if variant == 1 {
					lastIdx := si
					for sj := si; sj < len(sp.Slots); sj++ {
						if sp.Slots[sj].Oneof == sl.Oneof {
							lastIdx = sj
						}
					}
					if lastIdx != si {
						continue
					}
				}
				used[sl.Oneof] = true
			}
			n := 0
			for _, c := range sl.Cands {
				if !c.Rep {
					continue
				}
				if n == variant || (variant == 1 && n == 0 && countReps(sl.Cands) == 1) {
					c.Apply(d)
					break
				}
				n++
			}
		}
		b, err := proto.MarshalOptions{Deterministic: true}.Marshal(d)
		if err == nil && len(b) > 0 {
			out = append(out, b)
		}
	}
	return out
}

func countReps(cs []enum.Cand) int {
	n := 0
	for _, c := range cs {
		if c.Rep {
			n++
		}
	}
	return n
}

// evalSeq judges one sequence and reports only delta-minimal failures: a failing sequence is
// reported unless dropping one of its records still fails with the same oracle (that shorter
// sequence is in the space too and is reported itself).
func evalSeq(h *hz.H, md protoreflect.MessageDescriptor, recs []enum.Rec, bases [][]byte, onlyBase int) {
	s := &sink{h: h}
	evalSeq1(s, md, recs, bases, onlyBase)
	for _, f := range s.found {
		minimal := true
		if len(recs) >= 2 && h.Replay == "" {
			for drop := 0; drop < len(recs) && minimal; drop++ {
				sub := append(append([]enum.Rec(nil), recs[:drop]...), recs[drop+1:]...)
				q := &sink{h: h, quiet: true}
				evalSeq1(q, md, sub, bases, onlyBase)
				for _, g := range q.found {
					if oracleOf(g.key) == oracleOf(f.key) {
						minimal = false
						break
					}
				}
			}
		}
		if minimal {
			h.Violate(f.key, f.what, f.wc)
		} else {
			h.Counter("non_minimal_failing_sequences_suppressed", 1)
		}
	}
}

func evalSeq1(h *sink, md protoreflect.MessageDescriptor, recs []enum.Rec, bases [][]byte, onlyBase int) {
	var parts [][]byte
	wc := wcase{Type: string(md.FullName()), Mode: "C03"}
	var classes []string
	for _, r := range recs {
		parts = append(parts, r.Bytes)
		wc.Records = append(wc.Records, hex.EncodeToString(r.Bytes))
		wc.Labels = append(wc.Labels, r.Label)
		wc.Classes = append(wc.Classes, r.Class)
		classes = append(classes, r.Class)
	}
	stream := concat(parts)
	// (a) fresh decode
	if onlyBase < 0 {
		ok, refOK, canon := decodeBoth(h, md, stream, nil, false, classKey("C03", "fresh", md, classes), "fresh decode", wc)
		h.Eval(refOK && len(stream) > 0, hz.HashBytes([]byte("C03"), []byte(md.FullName()), stream))
		if !refOK {
			h.Counter("streams_rejected_by_reference", 1)
			return
		}
		if ok && len(recs) >= 2 {
			// (c) concatenation law on the generated decoder itself: decode(s1 || s2) == merge-decode(s2) into decode(s1)
			for cut := 1; cut < len(recs); cut++ {
				g := enum.NewGo(md)
				s1, s2 := concat(parts[:cut]), concat(parts[cut:])
				var e1, e2 error
				if p := hz.Catch(func() {
					e1 = proto.Unmarshal(s1, g)
					e2 = proto.UnmarshalOptions{Merge: true}.Unmarshal(s2, g)
				}); p != nil || e1 != nil || e2 != nil {
					h.Violate(classKey("C03", "concat-law/failed", md, classes), fmt.Sprintf("decoding %s then merging %s failed: panic=%v err=%v/%v", clip(s1), clip(s2), p, e1, e2), wc)
					continue
				}
				if got := enum.Canon(enum.Slow(g), true); got != canon {
					h.Violate(classKey("C03", "concat-law", md, classes), fmt.Sprintf("decode(s1||s2) != Merge-decode(s2) into decode(s1) for s1=%s s2=%s\n concatenated %s\n stepwise     %s", clip(s1), clip(s2), clips(canon), clips(got)), wc)
				}
			}
		}
		if !h.quiet && h.h.WantSample() && len(recs) == 2 {
			h.h.Sample(map[string]interface{}{"type": wc.Type, "records": wc.Labels, "stream_hex": clip(stream)})
		}
	}
	// (b) Merge:true into pre-populated messages
	for bi, base := range bases {
		if onlyBase >= 0 && bi != onlyBase {
			continue
		}
		wcb := wc
		wcb.Base = hex.EncodeToString(base)
		_, refOK, _ := decodeBoth(h, md, stream, base, false, classKey("C03", fmt.Sprintf("merge-into-base%d", bi), md, classes), "Merge:true decode into a populated message", wcb)
		h.Eval(refOK && len(stream) > 0, hz.HashBytes([]byte("C03m"), []byte(md.FullName()), base, stream))
	}
}

func runC03(h *hz.H) {
	if h.Replay != "" {
		var wc wcase
		h.LoadReplay(&wc)
		if h.Prop == "C07" {
			md := findType(wc.Type)
			var recs []enum.Rec
			for i, hx := range wc.Records {
				b, _ := hex.DecodeString(hx)
				recs = append(recs, enum.Rec{Bytes: b, Label: wc.Labels[i], Class: wc.Classes[i]})
			}
			evalAlias(h, md, recs, mergeBases(md))
			h.Eval(true, 1)
			h.Eval(true, 2)
			return
		}
		md := findType(wc.Type)
		if md == nil {
			h.InternalError("replay: type not in this binary: " + wc.Type)
			return
		}
		var recs []enum.Rec
		for i, hx := range wc.Records {
			b, _ := hex.DecodeString(hx)
			recs = append(recs, enum.Rec{Bytes: b, Label: wc.Labels[i], Class: wc.Classes[i]})
		}
		if wc.Base != "" {
			base, _ := hex.DecodeString(wc.Base)
			evalSeq(h, md, recs, [][]byte{base}, 0)
		} else {
			evalSeq(h, md, recs, nil, -1)
		}
		h.Eval(true, 1)
		h.Eval(true, 2)
		return
	}
	types := enum.TypesMatching(os.Getenv("VERIF_TYPES"))
	if len(types) < 5 {
		h.InternalError(fmt.Sprintf("vacuous: only %d pulsar types found", len(types)))
		return
	}
	limit := int64(250000)
	if h.Thorough() {
		limit = 6000000
	}
	if os.Getenv("VERIF_LITE") != "" {
		limit = 3000
	}
	type plan struct {
		md    protoreflect.MessageDescriptor
		recs  []enum.Rec
		bases [][]byte
		L     int
	}
	var plans []plan
	var names []string
	for _, md := range types {
		recs := enum.RecordAlphabet(md, h.Thorough())
		n := int64(len(recs))
		L := 1
		for l := 2; l <= 3; l++ {
			t := int64(1)
			for i := 0; i < l; i++ {
				t *= n
			}
			if t <= limit {
				L = l
			}
		}
		plans = append(plans, plan{md, recs, mergeBases(md), L})
		names = append(names, fmt.Sprintf("%s: |R|=%d, all sequences of length <=%d, %d merge bases", md.FullName(), n, L, len(plans[len(plans)-1].bases)))
	}
	h.Rep.Bounds["types"] = names
	h.Rep.Bounds["per_type_sequence_limit"] = limit
	type item struct {
		p   *plan
		idx []int
	}
	h.Stream("record sequences", func(emit func(interface{}) bool) {
		for pi := range plans {
			p := &plans[pi]
			n := len(p.recs)
			if !emit(item{p, nil}) {
				return
			}
			for l := 1; l <= p.L; l++ {
				idx := make([]int, l)
				for {
					if !emit(item{p, append([]int(nil), idx...)}) {
						return
					}
					k := l - 1
					for k >= 0 {
						idx[k]++
						if idx[k] < n {
							break
						}
						idx[k] = 0
						k--
					}
					if k < 0 {
						break
					}
				}
			}
		}
	}, func(it interface{}) {
		x := it.(item)
		recs := make([]enum.Rec, len(x.idx))
		for i, j := range x.idx {
			recs[i] = x.p.recs[j]
		}
		if h.Prop == "C07" {
			evalAlias(h, x.p.md, recs, x.p.bases)
		} else {
			evalSeq(h, x.p.md, recs, x.p.bases, -1)
		}
	})
	if h.Prop == "C07" {
		h.Rep.Rule = "wire-level part of C07: every sequence of <=2 (3 for small alphabets) records of the C03 record alphabet (explicit empty values, repeated occurrences of one field, partial map entries...) is decoded from an exact-size buffer, fresh and with Merge into pre-populated messages (also twice in a row into the same message); the input must be unchanged and overwriting it afterwards must leave the deep struct snapshot unchanged; distinct = hash(type, base, stream)"
		h.Rep.Assumptions = []string{"deep struct snapshot (reflect+unsafe) is the observation; streams the generated decoder rejects are skipped"}
		return
	}
	h.Rep.Rule = "for every pulsar type: the record alphabet R(T) generated from its descriptor (per field: 2-3 values in the declared wire type incl. explicit zero, padded varints/tags/lengths, packed runs of 0..3 elements and unpacked elements whatever the declaration, two different sub-messages + empty, 10 map-entry shapes, unknown records of every wire type); ALL sequences over R(T) up to the stated length, decoded fresh and with Merge:true into 2 pre-populated messages; plus the concatenation law at every split point; non-trivial = reference accepts the stream and it is non-empty; distinct = hash(type, base, stream bytes)"
	h.Rep.Assumptions = []string{"dynamicpb's reflection-driven decoder (protobuf-go v1.34.0) is the reference decoder; streams it rejects are outside the property's domain and only counted", "decoded values are observed through protobuf-go struct reflection, not through the generated accessors"}
}

// evalAlias: C07 at the wire level. The decoded message must share no memory with the input, whatever
// mix of occurrences the stream holds, also when decoding twice into the same message.
func evalAlias(h *hz.H, md protoreflect.MessageDescriptor, recs []enum.Rec, bases [][]byte) {
	var parts [][]byte
	wc := wcase{Type: string(md.FullName()), Mode: "C07"}
	var classes []string
	for _, r := range recs {
		parts = append(parts, r.Bytes)
		wc.Records = append(wc.Records, hex.EncodeToString(r.Bytes))
		wc.Labels = append(wc.Labels, r.Label)
		wc.Classes = append(wc.Classes, r.Class)
		classes = append(classes, r.Class)
	}
	stream := concat(parts)
	h.Eval(len(stream) > 0, hz.HashBytes([]byte("C07w"), []byte(md.FullName()), stream))
	check := func(what string, g proto.Message, steps [][]byte, merge []bool) {
		var bufs [][]byte
		for i, st := range steps {
			in := make([]byte, len(st)) // exact size: an alias can only be into caller memory
			copy(in, st)
			var err error
			if p := hz.Catch(func() { err = proto.UnmarshalOptions{Merge: merge[i]}.Unmarshal(in, g) }); p != nil || err != nil {
				return // totality / well-typedness are C06's and C03's business
			}
			if string(in) != string(st) {
				h.Violate(classKey("C07", "wire/input-modified:"+what, md, classes), fmt.Sprintf("%s: Unmarshal modified its input %s -> %s", what, clip(st), clip(in)), wc)
				return
			}
			// an earlier input must not have been written to either
			for j, b := range bufs {
				if string(b) != string(steps[j]) {
					h.Violate(classKey("C07", "wire/earlier-input-modified:"+what, md, classes), fmt.Sprintf("%s: decoding %s overwrote the buffer of an earlier Unmarshal call (%s -> %s)", what, clip(st), clip(steps[j]), clip(b)), wc)
					return
				}
			}
			bufs = append(bufs, in)
		}
		snap := enum.Snapshot(g)
		for _, fill := range []byte{0xAA, 0x55} {
			for _, b := range bufs {
				for i := range b {
					b[i] = fill
				}
			}
			if s2 := enum.Snapshot(g); s2 != snap {
				h.Violate(classKey("C07", "wire/decoded-message-aliases-input:"+what, md, classes), fmt.Sprintf("%s of stream %s: overwriting the input afterwards changed the message\n before %s\n after  %s", what, clip(stream), clips(snap), clips(s2)), wc)
				return
			}
		}
	}
	check("fresh decode", enum.NewGo(md), [][]byte{stream}, []bool{false})
	if len(recs) >= 2 {
		// the same records delivered by two successive Merge decodes into one message
		check("two successive decodes", enum.NewGo(md), [][]byte{concat(parts[:1]), concat(parts[1:])}, []bool{false, true})
	}
	for bi, base := range bases {
		d := enum.NewDyn(md)
		if proto.Unmarshal(base, d) != nil {
			continue
		}
		check(fmt.Sprintf("Merge decode into base%d", bi), enum.BuildGo(d), [][]byte{stream}, []bool{true})
	}
	if h.WantSample() && len(recs) == 2 {
		h.Sample(map[string]interface{}{"type": wc.Type, "records": wc.Labels, "stream_hex": clip(stream)})
	}
}
