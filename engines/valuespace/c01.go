package main

import (
	"bytes"
	"fmt"

	"github.com/cosmos/cosmos-proto/internal/zzverif/enum"
	"github.com/cosmos/cosmos-proto/internal/zzverif/hz"
	"google.golang.org/protobuf/proto"
	"google.golang.org/protobuf/reflect/protoreflect"
	"google.golang.org/protobuf/runtime/protoiface"
)

// build returns (dyn reference value, generated struct holding the same value, canonical string).
// A mismatch between the two right after construction is a harness problem, not a violation.
func build(h *hz.H, sp *enum.Space, c enum.Case) (d proto.Message, g proto.Message, canon string, ok bool) {
	dm := sp.BuildDyn(c)
	canon = enum.Canon(dm, false)
	var gm proto.Message
	if p := hz.Catch(func() { gm = enum.BuildGo(dm) }); p != nil {
		h.InternalError(fmt.Sprintf("constructor panicked for %s: %v", sp.Label(c), p))
		return nil, nil, "", false
	}
	if got := enum.Canon(enum.Slow(gm), true); got != canon {
		h.InternalError(fmt.Sprintf("constructor mismatch for %s:\n struct: %s\n dyn:    %s", sp.Label(c), got, canon))
		return nil, nil, "", false
	}
	return dm.Interface(), gm, canon, true
}

func modes(replayDet *bool) []bool {
	if replayDet != nil {
		return []bool{*replayDet}
	}
	return []bool{false, true}
}

// manySiblings: more nested messages in ONE parent than the decoder's recursion budget (10000) - per message-list /
// message-map field, and spread over all of them together. A budget is spent per nesting level, not per occurrence.
func manySiblings(h *hz.H, sp *enum.Space, b bounds) {
	fs := sp.MD.Fields()
	var holders []protoreflect.FieldDescriptor
	for i := 0; i < fs.Len(); i++ {
		fd := fs.Get(i)
		if fd.IsList() && fd.Kind() == protoreflect.MessageKind || fd.IsMap() && fd.MapValue().Kind() == protoreflect.MessageKind && fd.MapKey().Kind() != protoreflect.BoolKind {
			holders = append(holders, fd)
		}
	}
	if len(holders) == 0 {
		return
	}
	fill := func(d protoreflect.Message, fd protoreflect.FieldDescriptor, n int) {
		if fd.IsList() {
			l := d.Mutable(fd).List()
			for i := 0; i < n; i++ {
				l.Append(l.NewElement())
			}
			return
		}
		mp := d.Mutable(fd).Map()
		for i := 0; i < n; i++ {
			var k protoreflect.Value
			switch fd.MapKey().Kind() {
			case protoreflect.StringKind:
				k = protoreflect.ValueOfString(fmt.Sprint(i))
			case protoreflect.Int32Kind, protoreflect.Sint32Kind, protoreflect.Sfixed32Kind:
				k = protoreflect.ValueOfInt32(int32(i))
			case protoreflect.Int64Kind, protoreflect.Sint64Kind, protoreflect.Sfixed64Kind:
				k = protoreflect.ValueOfInt64(int64(i))
			case protoreflect.Uint32Kind, protoreflect.Fixed32Kind:
				k = protoreflect.ValueOfUint32(uint32(i))
			default:
				k = protoreflect.ValueOfUint64(uint64(i))
			}
			mp.Set(k.MapKey(), mp.NewValue())
		}
	}
	type variant struct {
		label string
		d     protoreflect.Message
	}
	var vs []variant
	for _, fd := range holders {
		d := enum.NewDyn(sp.MD)
		fill(d, fd, 10001)
		vs = append(vs, variant{fmt.Sprintf("%s=10001 empty messages", fd.Name()), d})
	}
	if len(holders) > 1 {
		d := enum.NewDyn(sp.MD)
		for _, fd := range holders {
			fill(d, fd, 10001/len(holders)+1)
		}
		vs = append(vs, variant{fmt.Sprintf("%d nested messages spread over %d fields", (10001/len(holders)+1)*len(holders), len(holders)), d})
	}
	for _, v := range vs {
		vc := mkCase(sp, nil, b, true, "many-siblings")
		key := fmt.Sprintf("C01/many-sibling-messages@%s", sp.MD.FullName())
		h.Eval(true, hz.Hash("C01many", string(sp.MD.FullName()), v.label))
		g := enum.BuildGo(v.d)
		var enc []byte
		var err, uerr error
		g2 := enum.NewGo(sp.MD)
		if p := hz.Catch(func() {
			enc, err = proto.MarshalOptions{Deterministic: true}.Marshal(g)
			if err == nil {
				uerr = proto.Unmarshal(enc, g2)
			}
		}); p != nil || err != nil || uerr != nil {
			h.Violate(key, fmt.Sprintf("%s{%s}: marshal err=%v, unmarshal of its own encoding err=%v, panic=%v (nesting depth is 1: the recursion limit does not apply)", sp.MD.FullName(), v.label, err, uerr, p), vc)
			continue
		}
		if enum.Canon(enum.Slow(g2), true) != enum.Canon(v.d, false) {
			h.Violate(key, fmt.Sprintf("%s{%s}: the round trip changed the value", sp.MD.FullName(), v.label), vc)
		}
	}
}

func evalC01(h *hz.H, sp *enum.Space, c enum.Case, b bounds, replayDet *bool, aux string) {
	d, g, canon, ok := build(h, sp, c)
	if !ok {
		return
	}
	_ = d
	if len(c) == 0 && (replayDet == nil || aux == "many-siblings") {
		manySiblings(h, sp, b)
	}
	for _, det := range modes(replayDet) {
		var enc []byte
		var err error
		if p := hz.Catch(func() { enc, err = proto.MarshalOptions{Deterministic: det}.Marshal(g) }); p != nil {
			h.Violate(caseKey("C01", "marshal-panic", sp, c), fmt.Sprintf("proto.Marshal(det=%v) panicked on %s: %v", det, sp.Label(c), p), mkCase(sp, c, b, det, ""))
			h.Eval(true, hz.Hash("C01", string(sp.MD.FullName()), fmt.Sprint(det), canon))
			continue
		}
		h.Eval(len(enc) > 0, hz.Hash("C01", string(sp.MD.FullName()), fmt.Sprint(det), canon))
		if err != nil {
			h.Violate(caseKey("C01", "marshal-error", sp, c), fmt.Sprintf("proto.Marshal(det=%v) failed on %s: %v", det, sp.Label(c), err), mkCase(sp, c, b, det, ""))
			continue
		}
		// (i) decode with the code under test into a fresh generated message, observe through slow
		g2 := enum.NewGo(sp.MD)
		var uerr error
		if p := hz.Catch(func() { uerr = proto.Unmarshal(enc, g2) }); p != nil {
			h.Violate(caseKey("C01", "unmarshal-panic", sp, c), fmt.Sprintf("proto.Unmarshal of own encoding %x panicked for %s: %v", clip(enc), sp.Label(c), p), mkCase(sp, c, b, det, ""))
			continue
		}
		if uerr != nil {
			h.Violate(caseKey("C01", "unmarshal-error", sp, c), fmt.Sprintf("proto.Unmarshal of own encoding %x failed for %s: %v", clip(enc), sp.Label(c), uerr), mkCase(sp, c, b, det, ""))
			continue
		}
		if got := enum.Canon(enum.Slow(g2), true); got != canon {
			h.Violate(caseKey("C01", "roundtrip-fast", sp, c), fmt.Sprintf("round trip (det=%v) through generated codec changed the value of %s:\n want %s\n got  %s\n bytes %x", det, sp.Label(c), clips(canon), clips(got), clip(enc)), mkCase(sp, c, b, det, ""))
			continue
		}
		// (ii) decode the same bytes with the reference decoder
		d2 := enum.NewDyn(sp.MD)
		if derr := proto.Unmarshal(enc, d2); derr != nil {
			h.Violate(caseKey("C01", "encoding-rejected-by-reference", sp, c), fmt.Sprintf("reference decoder rejects the encoding (det=%v) of %s: %v; bytes %x", det, sp.Label(c), derr, clip(enc)), mkCase(sp, c, b, det, ""))
			continue
		}
		if got := enum.Canon(d2, false); got != canon {
			h.Violate(caseKey("C01", "roundtrip-reference", sp, c), fmt.Sprintf("encoding (det=%v) of %s decodes to a different value under the reference decoder:\n want %s\n got  %s\n bytes %x", det, sp.Label(c), clips(canon), clips(got), clip(enc)), mkCase(sp, c, b, det, ""))
			continue
		}
		if h.WantSample() && len(c) > 0 {
			h.Sample(map[string]interface{}{"value": sp.Label(c), "deterministic": det, "encoding_hex": fmt.Sprintf("%x", clip(enc))})
		}
	}
	// the same object again after it has been emptied in place (every populated field cleared through the generated
	// reflection API, unknown fields dropped): whatever the earlier Marshal/Size calls remembered must not leak into the
	// encoding of the now empty message, alone or nested in a parent
	if len(c) > 0 && len(c) <= 2 && replayDet == nil || aux == "emptied-in-place" {
		var enc []byte
		var err error
		p := hz.Catch(func() {
			m := g.ProtoReflect()
			var fds []protoreflect.FieldDescriptor
			m.Range(func(fd protoreflect.FieldDescriptor, _ protoreflect.Value) bool { fds = append(fds, fd); return true })
			for _, fd := range fds {
				m.Clear(fd)
			}
			m.SetUnknown(nil)
			enc, err = proto.Marshal(g)
		})
		h.Eval(true, hz.Hash("C01emptied", string(sp.MD.FullName()), canon))
		if p != nil || err != nil || len(enc) != 0 {
			h.Violate(caseKey("C01", "emptied-in-place", sp, c), fmt.Sprintf("%s was marshalled, then emptied in place (Clear of every populated field): Marshal now gives %x (err %v, panic %v), want no bytes", sp.Label(c), clip(enc), err, p), mkCase(sp, c, b, true, "emptied-in-place"))
		}
	}
}

func clip(b []byte) []byte {
	if len(b) > 96 {
		return b[:96]
	}
	return b
}

func clips(s string) string {
	if len(s) > 400 {
		return s[:400] + "…"
	}
	return s
}

func evalC02(h *hz.H, sp *enum.Space, c enum.Case, b bounds, replayDet *bool, aux string) {
	d, g, _, ok := build(h, sp, c)
	if !ok {
		return
	}
	ref, err := proto.MarshalOptions{Deterministic: true}.Marshal(d)
	if err != nil {
		h.InternalError(fmt.Sprintf("reference encoder failed on %s: %v", sp.Label(c), err))
		return
	}
	spec := enum.SpecEncode(d.ProtoReflect())
	if !bytes.Equal(ref, spec) {
		h.InternalError(fmt.Sprintf("spec encoder disagrees with dynamicpb on %s:\n dyn  %x\n spec %x", sp.Label(c), ref, spec))
		return
	}
	h.Eval(len(ref) > 0, hz.HashBytes([]byte("C02"), []byte(sp.MD.FullName()), ref))
	var enc []byte
	if p := hz.Catch(func() { enc, err = proto.MarshalOptions{Deterministic: true}.Marshal(g) }); p != nil {
		h.Violate(caseKey("C02", "marshal-panic", sp, c), fmt.Sprintf("deterministic Marshal panicked on %s: %v", sp.Label(c), p), mkCase(sp, c, b, true, ""))
		return
	}
	if err != nil {
		h.Violate(caseKey("C02", "marshal-error", sp, c), fmt.Sprintf("deterministic Marshal failed on %s: %v", sp.Label(c), err), mkCase(sp, c, b, true, ""))
		return
	}
	if !bytes.Equal(enc, ref) {
		h.Violate(caseKey("C02", "bytes-differ", sp, c), fmt.Sprintf("deterministic encoding of %s differs from the reference:\n generated %x\n reference %x", sp.Label(c), clip(enc), clip(ref)), mkCase(sp, c, b, true, ""))
		return
	}
	// the same bytes whatever buffer they are written into: MarshalAppend and ProtoMethods().Marshal into a kept buffer
	// whose spare capacity still holds the bytes of an earlier use (0xA5), exactly large enough and larger
	for _, spare := range []int{len(ref), len(ref) + 9} {
		for route := 0; route < 2; route++ {
			buf := bytes.Repeat([]byte{0xA5}, spare)[:0]
			var out []byte
			var oerr error
			p := hz.Catch(func() {
				if route == 0 {
					out, oerr = proto.MarshalOptions{Deterministic: true}.MarshalAppend(buf, g)
					return
				}
				m := g.ProtoReflect()
				if meth := m.ProtoMethods(); meth != nil && meth.Marshal != nil {
					var o protoiface.MarshalOutput
					o, oerr = meth.Marshal(protoiface.MarshalInput{Message: m, Buf: buf, Flags: protoiface.MarshalDeterministic})
					out = o.Buf
				} else {
					out = ref
				}
			})
			if p != nil || oerr != nil || !bytes.Equal(out, ref) {
				h.Violate(caseKey("C02", "bytes-differ-in-a-reused-buffer", sp, c), fmt.Sprintf("deterministic encoding of %s into a reused buffer (route %d: 0 MarshalAppend, 1 ProtoMethods().Marshal; %d spare bytes holding 0xA5) differs from the reference (panic %v, err %v):\n generated %x\n reference %x", sp.Label(c), route, spare, p, oerr, clip(out), clip(ref)), mkCase(sp, c, b, true, ""))
				return
			}
		}
	}
	if h.WantSample() && len(c) > 1 {
		h.Sample(map[string]interface{}{"value": sp.Label(c), "bytes_hex": fmt.Sprintf("%x", clip(ref))})
	}
}
