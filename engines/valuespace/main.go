// Engine "valuespace": bounded exhaustive enumeration of message values of every pulsar-generated
// type in the binary (checked-in and freshly generated), with per-property oracles.
// Serves C01, C02, C04, C07 (and C05/C10 through their own files).
package main

import (
	"fmt"
	"os"
	"strings"
	"sync"

	"github.com/cosmos/cosmos-proto/internal/zzverif/enum"
	"github.com/cosmos/cosmos-proto/internal/zzverif/hz"
	"google.golang.org/protobuf/reflect/protoreflect"
)

// vcase is the replayable description of one evaluated value.
type vcase struct {
	Type     string   `json:"type"`
	Choices  [][2]int `json:"choices"`
	Label    string   `json:"label"`
	Top      int      `json:"alphabet_level"`
	MaxDepth int      `json:"max_depth"`
	Det      bool     `json:"deterministic"`
	Aux      string   `json:"aux,omitempty"`
}

type bounds struct {
	top        enum.Level
	maxDepth   int
	full, reps int
}

func boundsFor(h *hz.H) bounds {
	if os.Getenv("VERIF_LITE") != "" {
		// C12's battery over the generated corpus: every <=1-slot value, representative pairs
		return bounds{top: enum.Boundary, maxDepth: 1, full: 1, reps: 2}
	}
	if h.Prop == "C10" {
		// every value is paired with its variants and pushed through four text codecs: one slot less than C01
		if h.Thorough() {
			return bounds{top: enum.Boundary, maxDepth: 2, full: 2, reps: 2}
		}
		return bounds{top: enum.Boundary, maxDepth: 2, full: 1, reps: 2}
	}
	if h.Thorough() {
		return bounds{top: enum.AllLens, maxDepth: 2, full: 2, reps: 3}
	}
	return bounds{top: enum.Boundary, maxDepth: 2, full: 2, reps: 2}
}

var spaceMu sync.Mutex
var spaceCache = map[string]*enum.Space{}

func spaceOf(md protoreflect.MessageDescriptor, top enum.Level, maxDepth int) *enum.Space {
	key := fmt.Sprintf("%s/%d/%d", md.FullName(), top, maxDepth)
	spaceMu.Lock()
	defer spaceMu.Unlock()
	if sp, ok := spaceCache[key]; ok {
		return sp
	}
	sp := enum.NewSpace(md, enum.Opts{Top: top, MaxDepth: maxDepth})
	spaceCache[key] = sp
	return sp
}

func shapeOf(fd protoreflect.FieldDescriptor) string {
	if fd == nil {
		return "unknown-set"
	}
	s := fd.Kind().String()
	switch {
	case fd.IsMap():
		s = "map<" + fd.MapKey().Kind().String() + "," + fd.MapValue().Kind().String() + ">"
	case fd.IsList():
		if fd.IsPacked() {
			s += "/packed"
		} else {
			s += "/repeated"
		}
	default:
		s += "/singular"
	}
	if od := fd.ContainingOneof(); od != nil && !od.IsSynthetic() {
		s += "/oneof"
	}
	n := fd.Number()
	tb := 1
	for x := uint64(n) << 3; x >= 0x80; x >>= 7 {
		tb++
	}
	return fmt.Sprintf("%s/tag%d", s, tb)
}

// caseKey builds the violation key: oracle + shape of every populated slot + type.field names.
func caseKey(prop, oracle string, sp *enum.Space, c enum.Case) string {
	var shapes, names []string
	for _, ch := range c {
		shapes = append(shapes, shapeOf(sp.Slots[ch.S].FD))
		names = append(names, sp.Slots[ch.S].Name)
	}
	if len(c) == 0 {
		shapes = []string{"empty"}
	}
	return fmt.Sprintf("%s/%s/%s@%s.%s", prop, oracle, strings.Join(shapes, "+"), sp.MD.FullName(), strings.Join(names, "+"))
}

func mkCase(sp *enum.Space, c enum.Case, b bounds, det bool, aux string) vcase {
	vc := vcase{Type: string(sp.MD.FullName()), Label: sp.Label(c), Top: int(b.top), MaxDepth: b.maxDepth, Det: det, Aux: aux}
	for _, ch := range c {
		vc.Choices = append(vc.Choices, [2]int{ch.S, ch.C})
	}
	return vc
}

func main() {
	h := hz.New()
	var eval func(h *hz.H, sp *enum.Space, c enum.Case, b bounds, replayDet *bool, aux string)
	switch h.Prop {
	case "C01":
		eval = evalC01
	case "C02":
		eval = evalC02
	case "C04":
		eval = evalC04
	case "C07":
		eval = evalC07
	case "C10":
		eval = evalC10
	default:
		fmt.Fprintln(os.Stderr, "INTERNAL: engine valuespace does not serve", h.Prop)
		os.Exit(2)
	}
	if h.Replay != "" {
		var vc vcase
		h.LoadReplay(&vc)
		md := findType(vc.Type)
		if md == nil {
			h.InternalError("replay: type not in this binary: " + vc.Type)
			h.Finish()
		}
		b := bounds{top: enum.Level(vc.Top), maxDepth: vc.MaxDepth}
		sp := spaceOf(md, b.top, b.maxDepth)
		var c enum.Case
		for _, ch := range vc.Choices {
			if ch[0] >= len(sp.Slots) || ch[1] >= len(sp.Slots[ch[0]].Cands) {
				h.InternalError("replay: choice out of range (schema or alphabet changed)")
				h.Finish()
			}
			c = append(c, enum.Choice{S: ch[0], C: ch[1]})
		}
		det := vc.Det
		eval(h, sp, c, b, &det, vc.Aux)
		h.Eval(true, 1)
		h.Eval(true, 2)
		h.Finish()
	}
	b := boundsFor(h)
	types := enum.TypesMatching(os.Getenv("VERIF_TYPES"))
	if len(types) < 5 {
		h.InternalError(fmt.Sprintf("vacuous: only %d pulsar types found in the binary", len(types)))
		h.Finish()
	}
	perTypeLimit := int64(300000)
	if h.Thorough() {
		perTypeLimit = 4000000
	}
	type plan struct {
		sp         *enum.Space
		full, reps int
		n          int64
	}
	var plans []plan
	var total int64
	var names []string
	for _, md := range types {
		sp := spaceOf(md, b.top, b.maxDepth)
		full, reps := b.full, b.reps
		n := sp.CountUpTo(full, reps, perTypeLimit)
		for n > perTypeLimit && (full > 1 || reps > 2) {
			// shrink the bound for this (large) type until its space fits; recorded in the evidence
			if full > 1 {
				full--
			} else {
				reps--
			}
			if reps < full {
				reps = full
			}
			n = sp.CountUpTo(full, reps, perTypeLimit)
		}
		plans = append(plans, plan{sp, full, reps, n})
		total += n
		names = append(names, fmt.Sprintf("%s: %d values (<=%d slots full alphabet, <=%d slots representatives)", md.FullName(), n, full, reps))
	}
	h.Rep.Bounds["types_and_values"] = names
	h.Rep.Bounds["alphabet_level"] = []string{"reduced", "boundary", "all-lengths"}[b.top]
	h.Rep.Bounds["max_populated_slots_full_alphabet"] = b.full
	h.Rep.Bounds["max_populated_slots_representatives"] = b.reps
	h.Rep.Bounds["per_type_value_limit"] = perTypeLimit
	h.Rep.Bounds["nesting_depth_populated"] = b.maxDepth
	h.Rep.Bounds["values"] = total
	type item struct {
		sp *enum.Space
		c  enum.Case
	}
	var produced int64
	h.Stream("value space", func(emit func(interface{}) bool) {
		for _, pl := range plans {
			pl := pl
			if !pl.sp.ForEach(pl.full, pl.reps, func(c enum.Case) bool {
				produced++
				return emit(item{pl.sp, c})
			}) {
				return
			}
		}
	}, func(it interface{}) {
		x := it.(item)
		eval(h, x.sp, x.c, b, nil, "")
	})
	if h.Rep.Exhaustive && produced != total {
		h.InternalError(fmt.Sprintf("enumerated %d values but the closed-form count says %d", produced, total))
	}
	finishProp(h)
	h.Finish()
}

func findType(name string) protoreflect.MessageDescriptor {
	for _, md := range enum.PulsarTypes() {
		if string(md.FullName()) == name {
			return md
		}
	}
	return nil
}

func finishProp(h *hz.H) {
	h.Rep.Assumptions = append(h.Rep.Assumptions,
		"protobuf-go v1.34.0 dynamicpb + reflection-driven codec is the reference; values are built into the Go struct through protobuf-go's struct reflection (protoimpl.MessageInfo.MessageOf), never through the code under test",
		"float32 signalling NaNs are outside the space (protoreflect.Value cannot carry them)")
	switch h.Prop {
	case "C01":
		h.Rep.Rule = "every message value with <= N populated slots (field, oneof member or unknown set) over the full alphabet and every value with up to M populated slots over two representatives per slot, for every pulsar type in the binary, x {default, Deterministic}; non-trivial = encoding non-empty; distinct = hash(type, mode, canonical value)"
	case "C02":
		h.Rep.Rule = "same value space as C01, Deterministic mode; three-way byte comparison fast / dynamicpb / spec encoder; non-trivial = encoding non-empty; distinct = hash(type, reference bytes)"
	case "C04":
		h.Rep.Rule = "same value space x {default, Deterministic} x 5 prefix buffers x {proto API, ProtoMethods direct}; non-trivial = encoding non-empty; distinct = hash(type, mode, reference bytes)"
	case "C10":
		h.Rep.Rule = "same value space as C01 (one slot less); each value x paired with {its twin, x with one slot moved to the next candidate, x with a slot cleared, empty} for Equal (both directions, and against a dynamicpb message) and Merge (incl. source untouched / no aliasing); Clone (deep, independent), Reset, CheckInitialized; protojson and prototext marshal (compact and multiline) compared as strings and their outputs (plus reversed member order for JSON) unmarshalled into generated vs dynamic messages; non-trivial = at least one populated slot; distinct = hash(type, canonical value)"
	case "C07":
		h.Rep.Rule = "same value space; scribble/snapshot oracles; non-trivial = value holds at least one string/bytes/unknown/list/map datum; distinct = hash(type, canonical value)"
	}
}
