package main

import (
	"bytes"
	"fmt"

	"github.com/cosmos/cosmos-proto/internal/zzverif/enum"
	"github.com/cosmos/cosmos-proto/internal/zzverif/hz"
	"google.golang.org/protobuf/proto"
	"google.golang.org/protobuf/reflect/protoreflect"
	"google.golang.org/protobuf/runtime/protoiface"
)

func prefixes(encLen int) (names []string, bufs [][]byte) {
	names = []string{"nil", "empty-nonnil", "3bytes-len=cap", "3bytes-spare1", "3bytes-spare-enough"}
	full := []byte{0xde, 0xad, 0xbf}
	p3 := make([]byte, 3, 3)
	copy(p3, full)
	p4 := make([]byte, 3, 4)
	copy(p4, full)
	pN := make([]byte, 3, 3+encLen+7)
	copy(pN, full)
	// fill the spare capacity with a sentinel so stale bytes cannot masquerade as output
	for i := 3; i < cap(p4); i++ {
		p4[:cap(p4)][i] = 0xEE
	}
	for i := 3; i < cap(pN); i++ {
		pN[:cap(pN)][i] = 0xEE
	}
	bufs = [][]byte{nil, make([]byte, 0), p3, p4, pN}
	return
}

func evalC04(h *hz.H, sp *enum.Space, c enum.Case, b bounds, replayDet *bool, aux string) {
	d, g, _, ok := build(h, sp, c)
	if !ok {
		return
	}
	if len(c) <= 2 {
		nilArtefacts(h, sp, c, b, d)
		defer warmThenMutate(h, sp, c, b, g)
	}
	for _, det := range modes(replayDet) {
		mo := proto.MarshalOptions{Deterministic: det}
		refSize := mo.Size(d)
		refDet, _ := proto.MarshalOptions{Deterministic: true}.Marshal(d)
		h.Eval(refSize > 0, hz.HashBytes([]byte("C04"), []byte(sp.MD.FullName()), []byte{b2(det)}, refDet))
		vc := mkCase(sp, c, b, det, "")
		var sz int
		var enc []byte
		var err error
		if p := hz.Catch(func() { sz = mo.Size(g) }); p != nil {
			h.Violate(caseKey("C04", "size-panic", sp, c), fmt.Sprintf("proto.Size(det=%v) panicked on %s: %v", det, sp.Label(c), p), vc)
			continue
		}
		if p := hz.Catch(func() { enc, err = mo.Marshal(g) }); p != nil {
			h.Violate(caseKey("C04", "marshal-panic", sp, c), fmt.Sprintf("proto.Marshal(det=%v) panicked on %s: %v (Size said %d, reference size %d)", det, sp.Label(c), p, sz, refSize), vc)
			continue
		}
		if err != nil {
			h.Violate(caseKey("C04", "marshal-error", sp, c), fmt.Sprintf("proto.Marshal(det=%v) failed on %s: %v", det, sp.Label(c), err), vc)
			continue
		}
		if sz != len(enc) || sz != refSize {
			h.Violate(caseKey("C04", "size-mismatch", sp, c), fmt.Sprintf("%s (det=%v): proto.Size=%d, len(Marshal)=%d, reference size=%d", sp.Label(c), det, sz, len(enc), refSize), vc)
			continue
		}
		// direct ProtoMethods route
		meth := g.ProtoReflect().ProtoMethods()
		if meth == nil || meth.Size == nil || meth.Marshal == nil {
			h.Violate(caseKey("C04", "no-methods", sp, c), "generated message exposes no fast-path Size/Marshal methods", vc)
			continue
		}
		var flags protoiface.MarshalInputFlags
		if det {
			flags |= protoiface.MarshalDeterministic
		}
		var so protoiface.SizeOutput
		if p := hz.Catch(func() { so = meth.Size(protoiface.SizeInput{Message: g.ProtoReflect(), Flags: flags}) }); p != nil {
			h.Violate(caseKey("C04", "methods-size-panic", sp, c), fmt.Sprintf("ProtoMethods().Size panicked on %s: %v", sp.Label(c), p), vc)
			continue
		}
		if so.Size != refSize {
			h.Violate(caseKey("C04", "methods-size-mismatch", sp, c), fmt.Sprintf("%s (det=%v): ProtoMethods().Size=%d, reference size=%d", sp.Label(c), det, so.Size, refSize), vc)
			continue
		}
		// route 0: Size, then Marshal with UseCachedSize (what gRPC's codec does): same bytes
		{
			var enc2 []byte
			var err2 error
			if p := hz.Catch(func() {
				mo.Size(g)
				enc2, err2 = proto.MarshalOptions{Deterministic: det, UseCachedSize: true}.Marshal(g)
			}); p != nil || err2 != nil || len(enc2) != refSize || det && !bytes.Equal(enc2, enc) {
				h.Violate(caseKey("C04", "use-cached-size", sp, c), fmt.Sprintf("%s (det=%v): Size then Marshal{UseCachedSize} gives %x (err %v, panic %v); Marshal gives %x", sp.Label(c), det, clip(enc2), err2, p, clip(enc)), vc)
				continue
			}
		}
		names, bufs := prefixes(len(enc))
		for pi, pre := range bufs {
			saved := append([]byte(nil), pre...)
			// route 1: proto.MarshalAppend
			var out []byte
			if p := hz.Catch(func() { out, err = mo.MarshalAppend(pre, g) }); p != nil {
				h.Violate(caseKey("C04", "append-panic/"+names[pi], sp, c), fmt.Sprintf("MarshalAppend(prefix=%s, det=%v) panicked on %s: %v", names[pi], det, sp.Label(c), p), vc)
				continue
			}
			if err != nil {
				h.Violate(caseKey("C04", "append-error/"+names[pi], sp, c), fmt.Sprintf("MarshalAppend(prefix=%s) failed on %s: %v", names[pi], sp.Label(c), err), vc)
				continue
			}
			if !bytes.Equal(pre, saved) {
				h.Violate(caseKey("C04", "append-clobbered-caller-prefix/"+names[pi], sp, c), fmt.Sprintf("MarshalAppend(prefix=%s) modified the caller's prefix bytes for %s: %x -> %x", names[pi], sp.Label(c), saved, pre), vc)
				continue
			}
			if len(out) < len(saved) || !bytes.Equal(out[:len(saved)], saved) {
				h.Violate(caseKey("C04", "append-prefix-lost/"+names[pi], sp, c), fmt.Sprintf("MarshalAppend(prefix=%s) result does not start with the prefix for %s: prefix %x result %x", names[pi], sp.Label(c), saved, clip(out)), vc)
				continue
			}
			if !det {
				// map order may legitimately differ between two non-deterministic calls: compare as values
				d2 := enum.NewDyn(sp.MD)
				if e := proto.Unmarshal(out[len(saved):], d2); e != nil || len(out)-len(saved) != refSize || enum.Canon(d2, false) != enum.Canon(d.ProtoReflect(), false) {
					h.Violate(caseKey("C04", "append-suffix-wrong/"+names[pi], sp, c), fmt.Sprintf("MarshalAppend(prefix=%s) suffix is not an encoding of %s: %x (err %v)", names[pi], sp.Label(c), clip(out[len(saved):]), e), vc)
					continue
				}
			} else if !bytes.Equal(out[len(saved):], enc) {
				h.Violate(caseKey("C04", "append-suffix-wrong/"+names[pi], sp, c), fmt.Sprintf("MarshalAppend(prefix=%s) suffix differs from Marshal for %s:\n suffix  %x\n marshal %x", names[pi], sp.Label(c), clip(out[len(saved):]), clip(enc)), vc)
				continue
			}
			// route 2: ProtoMethods().Marshal directly with Buf = prefix
			pre2 := append(make([]byte, 0, cap(pre)), saved...)
			if pre == nil {
				pre2 = nil
			}
			var mo2 protoiface.MarshalOutput
			if p := hz.Catch(func() {
				mo2, err = meth.Marshal(protoiface.MarshalInput{Message: g.ProtoReflect(), Buf: pre2, Flags: flags})
			}); p != nil {
				h.Violate(caseKey("C04", "methods-marshal-panic/"+names[pi], sp, c), fmt.Sprintf("ProtoMethods().Marshal(prefix=%s) panicked on %s: %v", names[pi], sp.Label(c), p), vc)
				continue
			}
			if err != nil || len(mo2.Buf) != len(saved)+refSize || !bytes.Equal(mo2.Buf[:len(saved)], saved) || (det && !bytes.Equal(mo2.Buf[len(saved):], enc)) {
				h.Violate(caseKey("C04", "methods-marshal-wrong/"+names[pi], sp, c), fmt.Sprintf("ProtoMethods().Marshal(prefix=%s, det=%v) on %s: err=%v result %x, want prefix %x + %d bytes", names[pi], det, sp.Label(c), err, clip(mo2.Buf), saved, refSize), vc)
				continue
			}
		}
		if h.WantSample() && len(c) > 0 {
			h.Sample(map[string]interface{}{"value": sp.Label(c), "deterministic": det, "size": sz, "prefixes": names})
		}
	}
}

// nilArtefacts: "nil and empty nested values" - a nil message as list element / map value next to whatever
// the value already holds. The reference is protobuf-go's table-driven codec over the same struct.
func nilArtefacts(h *hz.H, sp *enum.Space, c enum.Case, b bounds, d proto.Message) {
	fs := sp.MD.Fields()
	for i := 0; i < fs.Len(); i++ {
		fd := fs.Get(i)
		isMsgList := fd.IsList() && fd.Kind() == protoreflect.MessageKind
		isMsgMap := fd.IsMap() && fd.MapValue().Kind() == protoreflect.MessageKind
		isOneofMsg := fd.ContainingOneof() != nil && !fd.ContainingOneof().IsSynthetic() && fd.Kind() == protoreflect.MessageKind && d.ProtoReflect().WhichOneof(fd.ContainingOneof()) == nil
		if !isMsgList && !isMsgMap && !isOneofMsg {
			continue
		}
		// for string-keyed message maps also keys whose length puts the entry at a length-prefix boundary
		keyLens := []int{-1}
		if isMsgMap && fd.MapKey().Kind() == protoreflect.StringKind && len(c) <= 1 {
			keyLens = append(keyLens, 121, 122, 123, 124, 125, 126, 16376, 16377, 16378, 16379, 16380)
		}
		for _, keyLen := range keyLens {
			g := enum.BuildGo(d.ProtoReflect())
			if isOneofMsg {
				// the member selected with nil inside its wrapper (&T_Member{}): encodes as tag + length 0
				if !enum.InjectNilOneof(g, fd) {
					continue
				}
			} else if keyLen >= 0 {
				if !enum.InjectNilKeyLen(g, int(fd.Number()), keyLen) {
					continue
				}
			} else if !enum.InjectNil(g, int(fd.Number())) {
				continue
			}
			var ref []byte
			if p := hz.Catch(func() {
				mo, err := proto.MarshalOptions{Deterministic: true, AllowPartial: true}.MarshalState(protoiface.MarshalInput{Message: enum.Slow(g)})
				if err != nil {
					panic(err)
				}
				ref = mo.Buf
			}); p != nil {
				continue // the reference does not accept this struct: not judged
			}
			vc := mkCase(sp, c, b, true, fmt.Sprintf("nil-artefact:%d", fd.Number()))
			if keyLen >= 0 {
				vc = mkCase(sp, c, b, true, fmt.Sprintf("nil-artefact:%d:keylen=%d", fd.Number(), keyLen))
			}
			h.Eval(true, hz.HashBytes([]byte("C04nil"), []byte(sp.MD.FullName()), []byte(fd.Name()), ref))
			for _, det := range []bool{true, false} {
				var sz int
				var enc []byte
				var err error
				if p := hz.Catch(func() {
					sz = proto.MarshalOptions{Deterministic: det}.Size(g)
					enc, err = proto.MarshalOptions{Deterministic: det}.Marshal(g)
				}); p != nil || err != nil {
					h.Violate(caseKey("C04", "nil-element/panic", sp, c)+"#"+shapeOf(fd), fmt.Sprintf("Size/Marshal(det=%v) of %s plus a nil message in field %s: panic=%v err=%v (the reference codec encodes the same struct as %x)", det, sp.Label(c), fd.Name(), p, err, clip(ref)), vc)
					break
				}
				if sz != len(ref) || len(enc) != len(ref) || det && !bytes.Equal(enc, ref) {
					h.Violate(caseKey("C04", "nil-element/size", sp, c)+"#"+shapeOf(fd), fmt.Sprintf("%s plus a nil message in field %s (det=%v): proto.Size=%d len(Marshal)=%d bytes=%x; the reference codec over the same struct gives %d bytes %x", sp.Label(c), fd.Name(), det, sz, len(enc), clip(enc), len(ref), clip(ref)), vc)
					break
				}
			}
		}
	}
}

// nestedOf lists the populated nested messages of m (singular, list elements, map values), depth-first.
func nestedOf(m protoreflect.Message, path string, depth int, out *[]nestedRef) {
	if depth > 3 {
		return
	}
	m.Range(func(fd protoreflect.FieldDescriptor, v protoreflect.Value) bool {
		switch {
		case fd.IsMap():
			if fd.MapValue().Kind() != protoreflect.MessageKind {
				return true
			}
			var keys []protoreflect.MapKey
			v.Map().Range(func(k protoreflect.MapKey, _ protoreflect.Value) bool { keys = append(keys, k); return true })
			sortKeys(keys)
			for _, k := range keys {
				nm := v.Map().Get(k).Message()
				p := fmt.Sprintf("%s.%s[%v]", path, fd.Name(), k.Interface())
				*out = append(*out, nestedRef{p, nm})
				nestedOf(nm, p, depth+1, out)
			}
		case fd.Kind() != protoreflect.MessageKind && fd.Kind() != protoreflect.GroupKind:
		case fd.IsList():
			for i := 0; i < v.List().Len(); i++ {
				nm := v.List().Get(i).Message()
				p := fmt.Sprintf("%s.%s[%d]", path, fd.Name(), i)
				*out = append(*out, nestedRef{p, nm})
				nestedOf(nm, p, depth+1, out)
			}
		default:
			p := path + "." + string(fd.Name())
			*out = append(*out, nestedRef{p, v.Message()})
			nestedOf(v.Message(), p, depth+1, out)
		}
		return true
	})
}

type nestedRef struct {
	path string
	m    protoreflect.Message
}

func sortKeys(ks []protoreflect.MapKey) {
	for i := 1; i < len(ks); i++ {
		for j := i; j > 0 && fmt.Sprint(ks[j].Interface()) < fmt.Sprint(ks[j-1].Interface()); j-- {
			ks[j], ks[j-1] = ks[j-1], ks[j]
		}
	}
}

// warmThenMutate: g has just been sized and marshalled (whatever those calls cache is now warm). Each
// nested message is then changed in place - through the generated reflection API, as an application
// holding the nested pointer would - so that its encoded size grows and shrinks, and after every
// change Size / Marshal of the enclosing message are compared with protobuf-go's table-driven codec
// over the same struct.
func warmThenMutate(h *hz.H, sp *enum.Space, c enum.Case, b bounds, g proto.Message) {
	var nested []nestedRef
	if p := hz.Catch(func() { nestedOf(g.ProtoReflect(), "", 0, &nested) }); p != nil || len(nested) == 0 {
		return
	}
	if len(nested) > 6 {
		nested = nested[:6]
	}
	vc := mkCase(sp, c, b, true, "warm-then-mutate")
	check := func(step string) bool {
		// the generated code first: the reference codec below runs over the same struct and refreshes
		// protobuf-go's own size caches in it
		var sz int
		var enc, app []byte
		var err error
		p := hz.Catch(func() {
			sz = proto.Size(g)
			enc, err = proto.MarshalOptions{Deterministic: true}.Marshal(g)
			app, _ = proto.MarshalOptions{Deterministic: true}.MarshalAppend([]byte{0xde, 0xad}, g)
		})
		var ref []byte
		if rp := hz.Catch(func() {
			mo, err := proto.MarshalOptions{Deterministic: true, AllowPartial: true}.MarshalState(protoiface.MarshalInput{Message: enum.Slow(g)})
			if err != nil {
				panic(err)
			}
			ref = mo.Buf
		}); rp != nil {
			return false
		}
		h.Eval(true, hz.HashBytes([]byte("C04warm"), []byte(sp.MD.FullName()), []byte(step), ref))
		if p != nil || err != nil || sz != len(ref) || !bytes.Equal(enc, ref) || !bytes.Equal(app, append([]byte{0xde, 0xad}, ref...)) {
			h.Violate(caseKey("C04", "after-in-place-change-of-nested-message", sp, c), fmt.Sprintf("%s was sized and marshalled, then %s: now proto.Size=%d Marshal=%x MarshalAppend(dead)=%x (panic=%v err=%v); the reference codec over the same struct gives %d bytes %x", sp.Label(c), step, sz, clip(enc), clip(app), p, err, len(ref), clip(ref)), vc)
			return false
		}
		return true
	}
	for _, n := range nested {
		var inner protoreflect.FieldDescriptor
		fs := n.m.Descriptor().Fields()
		for i := 0; i < fs.Len(); i++ {
			fd := fs.Get(i)
			if !fd.IsList() && !fd.IsMap() && fd.Kind() != protoreflect.MessageKind && fd.Kind() != protoreflect.GroupKind {
				inner = fd
				break
			}
		}
		if inner == nil {
			continue
		}
		al := enum.ScalarAlphabet(inner, enum.Boundary)
		big := al[len(al)-1]
		was := n.m.Has(inner)
		old := n.m.Get(inner)
		if hz.Catch(func() { n.m.Set(inner, big) }) != nil {
			continue
		}
		if !check(fmt.Sprintf("nested message %s had %s set to a larger value in place", n.path, inner.Name())) {
			return
		}
		n.m.Clear(inner)
		if !check(fmt.Sprintf("nested message %s had %s cleared in place", n.path, inner.Name())) {
			return
		}
		if was {
			n.m.Set(inner, old)
			if !check(fmt.Sprintf("nested message %s had %s restored in place", n.path, inner.Name())) {
				return
			}
		}
	}
}

func b2(b bool) byte {
	if b {
		return 1
	}
	return 0
}
