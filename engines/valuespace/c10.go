package main

import (
	"encoding/json"
	"fmt"
	"sort"
	"strings"

	"github.com/cosmos/cosmos-proto/internal/zzverif/enum"
	"github.com/cosmos/cosmos-proto/internal/zzverif/hz"
	"google.golang.org/protobuf/encoding/protojson"
	"google.golang.org/protobuf/encoding/prototext"
	"google.golang.org/protobuf/proto"
	"google.golang.org/protobuf/reflect/protoreflect"
)

// variants of a case: the same value again, one slot moved to its next candidate, one slot cleared, empty.
func variantsOf(sp *enum.Space, c enum.Case) (labels []string, out []enum.Case) {
	labels = append(labels, "same")
	out = append(out, c)
	for i, ch := range c {
		n := len(sp.Slots[ch.S].Cands)
		if n > 1 {
			v := append(enum.Case(nil), c...)
			v[i] = enum.Choice{S: ch.S, C: (ch.C + 1) % n}
			labels = append(labels, fmt.Sprintf("slot%d-next-candidate", i))
			out = append(out, v)
		}
		cl := append(append(enum.Case(nil), c[:i]...), c[i+1:]...)
		labels = append(labels, fmt.Sprintf("slot%d-cleared", i))
		out = append(out, cl)
	}
	if len(c) > 0 {
		labels = append(labels, "empty")
		out = append(out, enum.Case{})
	}
	return
}

// reverseTopLevelKeys re-emits a JSON object with its top-level members in reverse order.
func reverseTopLevelKeys(js []byte) ([]byte, bool) {
	var m map[string]json.RawMessage
	if err := json.Unmarshal(js, &m); err != nil || len(m) < 2 {
		return nil, false
	}
	keys := make([]string, 0, len(m))
	for k := range m {
		keys = append(keys, k)
	}
	sort.Sort(sort.Reverse(sort.StringSlice(keys)))
	var sb strings.Builder
	sb.WriteByte('{')
	for i, k := range keys {
		if i > 0 {
			sb.WriteByte(',')
		}
		kb, _ := json.Marshal(k)
		sb.Write(kb)
		sb.WriteByte(':')
		sb.Write(m[k])
	}
	sb.WriteByte('}')
	return []byte(sb.String()), true
}

func evalC10(h *hz.H, sp *enum.Space, c enum.Case, b bounds, replayDet *bool, aux string) {
	d, g, canon, ok := build(h, sp, c)
	if !ok {
		return
	}
	vc := mkCase(sp, c, b, false, "")
	h.Eval(len(c) > 0, hz.Hash("C10", string(sp.MD.FullName()), canon))
	viol := func(oracle, what string) { h.Violate(caseKey("C10", oracle, sp, c), what, vc) }

	// Equal / Merge over pairs (x, y)
	labels, vars := variantsOf(sp, c)
	for vi, vcase := range vars {
		dy := sp.BuildDyn(vcase)
		gy := enum.BuildGo(dy)
		want := proto.Equal(d, dy.Interface())
		var e1, e2, e3 bool
		if p := hz.Catch(func() {
			e1 = proto.Equal(g, gy)
			e2 = proto.Equal(gy, g)
			e3 = proto.Equal(g, dy.Interface()) && proto.Equal(dy.Interface(), g)
		}); p != nil {
			viol("equal-panic/"+labels[vi], fmt.Sprintf("proto.Equal panicked on %s vs variant %s: %v", sp.Label(c), sp.Label(vcase), p))
			return
		}
		if e1 != want || e2 != want || e3 != want {
			viol("equal/"+labels[vi], fmt.Sprintf("proto.Equal(%s, %s): generated/generated=%v, reversed=%v, generated/dynamic=%v; reference says %v", sp.Label(c), sp.Label(vcase), e1, e2, e3, want))
			return
		}
		// Merge(dst=y, src=x)
		dm := proto.Clone(dy.Interface())
		proto.Merge(dm, d)
		wantM := enum.Canon(dm.ProtoReflect(), false)
		gm := enum.BuildGo(dy)
		if p := hz.Catch(func() { proto.Merge(gm, g) }); p != nil {
			viol("merge-panic/"+labels[vi], fmt.Sprintf("proto.Merge(dst=%s, src=%s) panicked: %v", sp.Label(vcase), sp.Label(c), p))
			return
		}
		if got := enum.Canon(enum.Slow(gm), true); got != wantM {
			viol("merge/"+labels[vi], fmt.Sprintf("proto.Merge(dst=%s, src=%s):\n reference %s\n generated %s", sp.Label(vcase), sp.Label(c), clips(wantM), clips(got)))
			return
		}
		// the source is untouched and shares nothing with the destination
		if enum.Canon(enum.Slow(g), true) != canon {
			viol("merge-modified-source/"+labels[vi], fmt.Sprintf("proto.Merge modified its source %s", sp.Label(c)))
			return
		}
		s0 := enum.Snapshot(g)
		enum.FlipBytes(gm)
		if enum.Snapshot(g) != s0 {
			viol("merge-aliases-source/"+labels[vi], fmt.Sprintf("after proto.Merge(dst, %s), mutating dst's bytes changed the source", sp.Label(c)))
			return
		}
	}
	// Clone: deep, equal, independent
	var cl proto.Message
	if p := hz.Catch(func() { cl = proto.Clone(g) }); p != nil {
		viol("clone-panic", fmt.Sprintf("proto.Clone panicked on %s: %v", sp.Label(c), p))
		return
	}
	if got := enum.Canon(enum.Slow(cl), true); got != canon {
		viol("clone", fmt.Sprintf("proto.Clone(%s) = %s, want %s", sp.Label(c), clips(got), clips(canon)))
		return
	}
	s0 := enum.Snapshot(g)
	enum.FlipBytes(cl)
	proto.Reset(cl)
	if enum.Snapshot(g) != s0 {
		viol("clone-not-independent", fmt.Sprintf("mutating/resetting the clone of %s changed the original", sp.Label(c)))
		return
	}
	// Reset
	g3 := enum.BuildGo(d.ProtoReflect())
	if p := hz.Catch(func() { proto.Reset(g3) }); p != nil || enum.Canon(enum.Slow(g3), true) != "{}" || proto.Size(g3) != 0 {
		viol("reset", fmt.Sprintf("proto.Reset(%s) left %s (size %d, panic %v)", sp.Label(c), enum.Canon(enum.Slow(g3), true), proto.Size(g3), p))
		return
	}
	// CheckInitialized, and the error-ness of the non-partial Marshal that ends in the same check, as for the reference
	// (proto3 messages have no required fields of their own, but they can reach proto2 messages that do)
	{
		refErr := proto.CheckInitialized(d)
		var err, merr error
		if p := hz.Catch(func() { err = proto.CheckInitialized(g); _, merr = proto.Marshal(g) }); p != nil || (err == nil) != (refErr == nil) || (merr == nil) != (refErr == nil) {
			viol("checkinitialized", fmt.Sprintf("proto.CheckInitialized(%s) = %v, proto.Marshal err = %v (panic %v); the reference says %v", sp.Label(c), err, merr, p, refErr))
			return
		}
		if gc := proto.Clone(g); (proto.CheckInitialized(gc) == nil) != (refErr == nil) {
			viol("checkinitialized", fmt.Sprintf("proto.CheckInitialized(Clone(%s)) = %v; the reference says %v", sp.Label(c), proto.CheckInitialized(gc), refErr))
			return
		}
	}
	// JSON and text codecs (same process: protobuf-go's output randomisation is identical on both sides)
	type codec struct {
		name      string
		marshal   func(m proto.Message) ([]byte, error)
		unmarshal func(b []byte, m proto.Message) error
	}
	codecs := []codec{
		{"protojson", func(m proto.Message) ([]byte, error) { return protojson.Marshal(m) }, func(b []byte, m proto.Message) error { return protojson.Unmarshal(b, m) }},
		{"protojson-multiline", func(m proto.Message) ([]byte, error) {
			return protojson.MarshalOptions{Multiline: true, EmitUnpopulated: true, UseProtoNames: true}.Marshal(m)
		}, func(b []byte, m proto.Message) error { return protojson.Unmarshal(b, m) }},
		{"prototext", func(m proto.Message) ([]byte, error) { return prototext.Marshal(m) }, func(b []byte, m proto.Message) error { return prototext.Unmarshal(b, m) }},
		{"prototext-multiline", func(m proto.Message) ([]byte, error) {
			return prototext.MarshalOptions{Multiline: true, EmitUnknown: true}.Marshal(m)
		}, func(b []byte, m proto.Message) error { return prototext.Unmarshal(b, m) }},
	}
	for _, cd := range codecs {
		refOut, refErr := cd.marshal(d)
		var out []byte
		var err error
		if p := hz.Catch(func() { out, err = cd.marshal(g) }); p != nil {
			viol(cd.name+"-marshal-panic", fmt.Sprintf("%s marshal panicked on %s: %v", cd.name, sp.Label(c), p))
			return
		}
		if (err == nil) != (refErr == nil) || (err == nil && string(out) != string(refOut)) {
			viol(cd.name+"-marshal", fmt.Sprintf("%s output for %s differs:\n reference (err=%v) %s\n generated (err=%v) %s", cd.name, sp.Label(c), refErr, clips(string(refOut)), err, clips(string(out))))
			return
		}
		if refErr != nil {
			continue
		}
		inputs := [][]byte{refOut}
		if strings.HasPrefix(cd.name, "protojson") {
			if rev, ok := reverseTopLevelKeys(refOut); ok {
				inputs = append(inputs, rev)
			}
		}
		for _, in := range inputs {
			dp := enum.NewDyn(sp.MD)
			refE := cd.unmarshal(in, dp)
			gp := enum.NewGo(sp.MD)
			var ge error
			if p := hz.Catch(func() { ge = cd.unmarshal(in, gp) }); p != nil {
				viol(cd.name+"-unmarshal-panic", fmt.Sprintf("%s unmarshal of %s panicked: %v", cd.name, clips(string(in)), p))
				return
			}
			if (ge == nil) != (refE == nil) {
				viol(cd.name+"-unmarshal-error", fmt.Sprintf("%s unmarshal of %s: generated err=%v, reference err=%v", cd.name, clips(string(in)), ge, refE))
				return
			}
			if refE == nil {
				if got, want := enum.Canon(enum.Slow(gp), true), enum.Canon(dp, false); got != want {
					viol(cd.name+"-unmarshal", fmt.Sprintf("%s unmarshal of %s:\n reference %s\n generated %s", cd.name, clips(string(in)), clips(want), clips(got)))
					return
				}
			}
		}
	}
	c10Artefacts(h, sp, c, d, viol)
	if h.WantSample() && len(c) > 1 {
		js, _ := protojson.Marshal(d)
		h.Sample(map[string]interface{}{"value": sp.Label(c), "pair_variants": labels, "json": clips(string(js))})
	}
}

// slowMsg presents protobuf-go's own struct reflection over a generated struct to the generic algorithms.
type slowMsg struct{ m protoreflect.Message }

func (s slowMsg) ProtoReflect() protoreflect.Message { return s.m }

// c10Artefacts: the value plus one of the states plain Go code builds (a nil message as list element / map value, a oneof
// member selected with nil inside its wrapper). The reference is protobuf-go's table-driven reflection over an identical
// struct; states it does not accept (panics) are not judged.
func c10Artefacts(h *hz.H, sp *enum.Space, c enum.Case, d proto.Message, viol func(oracle, what string)) {
	fs := sp.MD.Fields()
	for i := 0; i < fs.Len(); i++ {
		fd := fs.Get(i)
		isMsgList := fd.IsList() && fd.Kind() == protoreflect.MessageKind
		isMsgMap := fd.IsMap() && fd.MapValue().Kind() == protoreflect.MessageKind
		isOneofMsg := fd.ContainingOneof() != nil && !fd.ContainingOneof().IsSynthetic() && fd.Kind() == protoreflect.MessageKind && d.ProtoReflect().WhichOneof(fd.ContainingOneof()) == nil
		if !isMsgList && !isMsgMap && !isOneofMsg {
			continue
		}
		what := "nil-element"
		if isOneofMsg {
			what = "oneof-wrapper-holding-nil"
		}
		mk := func() proto.Message {
			g := enum.BuildGo(d.ProtoReflect())
			if isOneofMsg {
				if !enum.InjectNilOneof(g, fd) {
					return nil
				}
			} else if !enum.InjectNil(g, int(fd.Number())) {
				return nil
			}
			return g
		}
		x, y := mk(), mk()
		if x == nil || y == nil {
			continue
		}
		sw := func(p proto.Message) proto.Message { return slowMsg{enum.Slow(p)} }
		plain := func() proto.Message { return enum.BuildGo(d.ProtoReflect()) }
		// reference verdicts
		var want [6]bool
		var refJSON, refText []byte
		var refJE, refTE error
		var refMerged string
		if p := hz.Catch(func() {
			rx, ry := sw(mk()), sw(mk())
			want[0] = proto.Equal(rx, ry)
			want[1] = proto.Equal(ry, rx)
			want[2] = proto.Equal(rx, sw(proto.Clone(rx)))
			want[3] = proto.Equal(sw(proto.Clone(rx)), rx)
			want[4] = proto.Equal(rx, sw(plain()))
			want[5] = proto.Equal(sw(plain()), rx)
			refJSON, refJE = protojson.Marshal(rx)
			refText, refTE = prototext.Marshal(rx)
			// generic reflective merge out of the reference view (protobuf-go's table-driven merge drops -0, the
			// reflective one that generated messages go through does not: only the latter is the yardstick here)
			dst := enum.NewDyn(sp.MD)
			proto.Merge(dst, rx)
			refMerged = enum.Canon(dst, false)
		}); p != nil {
			h.Counter("artefact_states_the_reference_does_not_accept_not_judged", 1)
			continue
		}
		h.Eval(true, hz.Hash("C10artefact", string(sp.MD.FullName()), string(fd.Name()), sp.Label(c)))
		var got [6]bool
		var js, tx []byte
		var je, te error
		var merged string
		if p := hz.Catch(func() {
			got[0] = proto.Equal(x, y)
			got[1] = proto.Equal(y, x)
			got[2] = proto.Equal(x, proto.Clone(x))
			got[3] = proto.Equal(proto.Clone(x), x)
			got[4] = proto.Equal(x, plain())
			got[5] = proto.Equal(plain(), x)
			js, je = protojson.Marshal(x)
			tx, te = prototext.Marshal(x)
			dst := enum.NewGo(sp.MD)
			proto.Merge(dst, x)
			merged = enum.Canon(enum.Slow(dst), true)
		}); p != nil {
			viol("artefact-panic/"+what+"#"+shapeOf(fd), fmt.Sprintf("Equal/Clone/Merge/JSON/text on %s plus %s in field %s panicked (the reference handles the same struct): %v", sp.Label(c), what, fd.Name(), p))
			continue
		}
		if got != want {
			viol("artefact-equal/"+what+"#"+shapeOf(fd), fmt.Sprintf("%s plus %s in field %s: Equal(x,y) Equal(y,x) Equal(x,Clone(x)) Equal(Clone(x),x) Equal(x,without) Equal(without,x) = %v; the reference over the same structs says %v", sp.Label(c), what, fd.Name(), got, want))
			continue
		}
		if (je == nil) != (refJE == nil) || je == nil && string(js) != string(refJSON) || (te == nil) != (refTE == nil) || te == nil && string(tx) != string(refText) {
			viol("artefact-json-text/"+what+"#"+shapeOf(fd), fmt.Sprintf("%s plus %s in field %s: protojson %s (err %v) / prototext %s (err %v); the reference gives %s (err %v) / %s (err %v)", sp.Label(c), what, fd.Name(), clips(string(js)), je, clips(string(tx)), te, clips(string(refJSON)), refJE, clips(string(refText)), refTE))
			continue
		}
		if merged != refMerged {
			viol("artefact-merge/"+what+"#"+shapeOf(fd), fmt.Sprintf("Merge(empty, %s plus %s in field %s) = %s; the reference gives %s", sp.Label(c), what, fd.Name(), clips(merged), clips(refMerged)))
		}
	}
}
