package main

import (
	"bytes"
	"fmt"

	"github.com/cosmos/cosmos-proto/internal/zzverif/enum"
	"github.com/cosmos/cosmos-proto/internal/zzverif/hz"
	"google.golang.org/protobuf/encoding/protojson"
	"google.golang.org/protobuf/encoding/prototext"
	"google.golang.org/protobuf/proto"
	"google.golang.org/protobuf/reflect/protoreflect"
)

type roCall struct {
	name string
	f    func(g proto.Message)
}

func deepRange(m protoreflect.Message, depth int) {
	if depth > 8 {
		return
	}
	m.Range(func(fd protoreflect.FieldDescriptor, v protoreflect.Value) bool {
		switch {
		case fd.IsList():
			l := v.List()
			for i := 0; i < l.Len(); i++ {
				e := l.Get(i)
				if fd.Kind() == protoreflect.MessageKind {
					deepRange(e.Message(), depth+1)
				}
			}
		case fd.IsMap():
			v.Map().Range(func(k protoreflect.MapKey, mv protoreflect.Value) bool {
				if fd.MapValue().Kind() == protoreflect.MessageKind {
					deepRange(mv.Message(), depth+1)
				}
				return true
			})
		case fd.Kind() == protoreflect.MessageKind:
			deepRange(v.Message(), depth+1)
		}
		return true
	})
}

var roCalls = []roCall{
	{"Size", func(g proto.Message) { proto.Size(g) }},
	{"Size(Deterministic)", func(g proto.Message) { proto.MarshalOptions{Deterministic: true}.Size(g) }},
	{"Marshal", func(g proto.Message) { proto.Marshal(g) }},
	{"Marshal(Deterministic)", func(g proto.Message) { proto.MarshalOptions{Deterministic: true}.Marshal(g) }},
	{"MarshalAppend", func(g proto.Message) { proto.MarshalOptions{}.MarshalAppend(make([]byte, 2, 64), g) }},
	{"Equal(self,clone)", func(g proto.Message) { c := proto.Clone(g); proto.Equal(g, c); proto.Equal(c, g) }},
	{"Equal(self,empty)", func(g proto.Message) { proto.Equal(g, g.ProtoReflect().New().Interface()) }},
	{"Clone", func(g proto.Message) { proto.Clone(g) }},
	{"Merge-from", func(g proto.Message) { d := g.ProtoReflect().New().Interface(); proto.Merge(d, g) }},
	{"Range(deep)", func(g proto.Message) { deepRange(g.ProtoReflect(), 0) }},
	{"Get/Has(all fields)", func(g proto.Message) {
		m := g.ProtoReflect()
		fs := m.Descriptor().Fields()
		for i := 0; i < fs.Len(); i++ {
			fd := fs.Get(i)
			m.Has(fd)
			v := m.Get(fd)
			switch {
			case fd.IsList():
				l := v.List()
				l.Len()
				l.IsValid()
				if l.Len() > 0 {
					l.Get(0)
				}
			case fd.IsMap():
				mp := v.Map()
				mp.Len()
				mp.IsValid()
				mp.Range(func(protoreflect.MapKey, protoreflect.Value) bool { return true })
			case fd.Kind() == protoreflect.MessageKind:
				v.Message().IsValid()
			}
		}
	}},
	{"WhichOneof(all)", func(g proto.Message) {
		m := g.ProtoReflect()
		os := m.Descriptor().Oneofs()
		for i := 0; i < os.Len(); i++ {
			m.WhichOneof(os.Get(i))
		}
	}},
	{"GetUnknown", func(g proto.Message) { g.ProtoReflect().GetUnknown() }},
	{"String", func(g proto.Message) {
		if s, ok := g.(fmt.Stringer); ok {
			_ = s.String()
		}
	}},
	{"prototext.Marshal", func(g proto.Message) { prototext.Marshal(g) }},
	{"protojson.Marshal", func(g proto.Message) { protojson.Marshal(g) }},
	{"CheckInitialized", func(g proto.Message) { proto.CheckInitialized(g) }},
}

func evalC07(h *hz.H, sp *enum.Space, c enum.Case, b bounds, replayDet *bool, aux string) {
	d, g, canon, ok := build(h, sp, c)
	if !ok {
		return
	}
	enc, err := proto.MarshalOptions{Deterministic: true}.Marshal(d) // reference encoding: the decoder's input
	if err != nil {
		h.InternalError("reference encoder failed: " + err.Error())
		return
	}
	h.Eval(len(enc) > 0, hz.Hash("C07", string(sp.MD.FullName()), canon))
	vc := mkCase(sp, c, b, true, "")

	// (a) input immutability and (b) no sharing between the decoded message and its input
	in := make([]byte, len(enc)) // exact-size buffer: any alias is into caller memory
	copy(in, enc)
	g2 := enum.NewGo(sp.MD)
	var uerr error
	if p := hz.Catch(func() { uerr = proto.Unmarshal(in, g2) }); p != nil || uerr != nil {
		h.Violate(caseKey("C07", "unmarshal-failed", sp, c), fmt.Sprintf("Unmarshal of the reference encoding of %s failed: panic=%v err=%v", sp.Label(c), p, uerr), vc)
		return
	}
	if !bytes.Equal(in, enc) {
		h.Violate(caseKey("C07", "input-modified", sp, c), fmt.Sprintf("Unmarshal modified its input for %s: %x -> %x", sp.Label(c), clip(enc), clip(in)), vc)
		return
	}
	snap := enum.Snapshot(g2)
	for _, fill := range []byte{0xAA, 0x55} {
		for i := range in {
			in[i] = fill
		}
		if s2 := enum.Snapshot(g2); s2 != snap {
			h.Violate(caseKey("C07", "decoded-message-aliases-input", sp, c), fmt.Sprintf("after Unmarshal, overwriting the input buffer changed the message %s:\n before %s\n after  %s", sp.Label(c), clips(snap), clips(s2)), vc)
			return
		}
	}
	// Merge-mode decode into a populated message must not alias either
	g3 := proto.Clone(g)
	copy(in, enc)
	if p := hz.Catch(func() { uerr = proto.UnmarshalOptions{Merge: true}.Unmarshal(in, g3) }); p == nil && uerr == nil {
		snap3 := enum.Snapshot(g3)
		for i := range in {
			in[i] = 0xAA
		}
		if s2 := enum.Snapshot(g3); s2 != snap3 {
			h.Violate(caseKey("C07", "merged-message-aliases-input", sp, c), fmt.Sprintf("after Unmarshal(Merge), overwriting the input buffer changed the message %s", sp.Label(c)), vc)
			return
		}
	}

	// (c) output independence
	for _, det := range []bool{false, true} {
		var out []byte
		if p := hz.Catch(func() { out, err = proto.MarshalOptions{Deterministic: det}.Marshal(g) }); p != nil || err != nil {
			h.Violate(caseKey("C07", "marshal-failed", sp, c), fmt.Sprintf("Marshal(det=%v) of %s failed: panic=%v err=%v", det, sp.Label(c), p, err), vc)
			return
		}
		saved := append([]byte(nil), out...)
		flipped := enum.FlipBytes(g)
		if !bytes.Equal(out, saved) {
			h.Violate(caseKey("C07", "output-aliases-message", sp, c), fmt.Sprintf("mutating the bytes fields/unknown bytes of %s after Marshal(det=%v) changed the returned encoding", sp.Label(c), det), vc)
			return
		}
		s1 := enum.Snapshot(g)
		for i := range out {
			out[i] = 0xAA
		}
		if s2 := enum.Snapshot(g); s2 != s1 {
			h.Violate(caseKey("C07", "message-aliases-output", sp, c), fmt.Sprintf("overwriting the bytes returned by Marshal(det=%v) changed the message %s", det, sp.Label(c)), vc)
			return
		}
		if enum.FlipBytes(g) != flipped { // restore the value
			h.InternalError("FlipBytes not involutive")
			return
		}
	}

	// (d) read-only calls leave the struct untouched, for the value as built and for its
	// "empty instead of nil containers" twin
	if !h.Thorough() && replayDet == nil && len(c) >= 2 {
		// quick tier: the 17-call battery runs on all <=1-slot values and on representative pairs only
		for _, ch := range c {
			if !sp.Slots[ch.S].Cands[ch.C].Rep {
				return
			}
		}
	}
	for variant := 0; variant < 3; variant++ {
		gv := g
		vname := "as-built"
		if variant == 2 {
			// what plain Go code can build: a nil element / nil map value / oneof wrapper holding nil next to the value
			if len(c) > 1 {
				continue
			}
			gv = enum.BuildGo(d.ProtoReflect())
			n := 0
			fs := sp.MD.Fields()
			doneOneof := map[string]bool{}
			for i := 0; i < fs.Len(); i++ {
				fd := fs.Get(i)
				switch {
				case fd.IsList() && fd.Kind() == protoreflect.MessageKind, fd.IsMap() && fd.MapValue().Kind() == protoreflect.MessageKind:
					if enum.InjectNil(gv, int(fd.Number())) {
						n++
					}
				case fd.ContainingOneof() != nil && !fd.ContainingOneof().IsSynthetic() && fd.Kind() == protoreflect.MessageKind && !doneOneof[string(fd.ContainingOneof().Name())] && d.ProtoReflect().WhichOneof(fd.ContainingOneof()) == nil:
					if enum.InjectNilOneof(gv, fd) {
						doneOneof[string(fd.ContainingOneof().Name())] = true
						n++
					}
				}
			}
			if n == 0 {
				continue
			}
			vname = "with nil list elements / nil map values / oneof wrappers holding nil"
		}
		if variant == 1 {
			// (proto.Clone would go through the code under test; rebuild independently instead)
			gv = enum.BuildGo(d.ProtoReflect())
			if enum.EmptyNotNil(gv) == 0 {
				continue
			}
			vname = "empty-not-nil containers"
		}
		s0 := enum.Snapshot(gv)
		for _, rc := range roCalls {
			if p := hz.Catch(func() { rc.f(gv) }); p != nil {
				// panics are other properties' business (C01/C04/C09/C10); only the state is judged here
				_ = p
			}
			if s1 := enum.Snapshot(gv); s1 != s0 {
				h.Violate(caseKey("C07", "read-only-call-changed-struct/"+rc.name, sp, c), fmt.Sprintf("%s changed the Go struct of %s (%s):\n before %s\n after  %s", rc.name, sp.Label(c), vname, clips(s0), clips(s1)), vc)
				return
			}
		}
	}
	if h.WantSample() && len(c) > 0 {
		h.Sample(map[string]interface{}{"value": sp.Label(c), "input_hex": fmt.Sprintf("%x", clip(enc)), "read_only_calls": len(roCalls)})
	}
}
