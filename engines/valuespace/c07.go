package main

import (
	"github.com/cosmos/cosmos-proto/internal/zzverif/enum"
	"github.com/cosmos/cosmos-proto/internal/zzverif/hz"
)

func evalC07(h *hz.H, sp *enum.Space, c enum.Case, b bounds, replayDet *bool, aux string) {
	h.InternalError("C07 not built yet")
}
