package main

import (
	_ "unsafe" // go:linkname
)

// mapCtl mirrors runtime.verifCtl (see /verif/lib/mapctl.py); present only in binaries built with the
// patched runtime/map.go.
type mapCtlT struct {
	Mode    uint32
	FixHash uint32
	Hash0   uint32
	Trace   uint32
	Word    uint64
	K1, K2  int64
	W1, W2  uint64
	Count   int64
	B       [256]uint8
	envDone uint32
}

//go:linkname mapCtl runtime.verifMapCtl
var mapCtl mapCtlT
