// Engine "mapspace" (C05): deterministic marshalling is a pure function of the value. The Go
// runtime's map-iteration choices (start bucket / offset of every iteration, per-map hash seed) are
// owned through the patched runtime/map.go; for every construction history of a value with maps at
// depth 0..2, every choice the runtime can make is enumerated (one global word, one deviating
// iteration, two deviating iterations) and the deterministic bytes must never change.
// Runs single-threaded: the control block is process-global.
package main

import (
	"bytes"
	"fmt"
	"os"
	"runtime"
	"sort"

	"github.com/cosmos/cosmos-proto/internal/zzverif/enum"
	"github.com/cosmos/cosmos-proto/internal/zzverif/hz"
	"google.golang.org/protobuf/proto"
	"google.golang.org/protobuf/reflect/protoreflect"
	"google.golang.org/protobuf/runtime/protoiface"
)

type mcase struct {
	Type    string  `json:"type"`
	Path    []int32 `json:"path_field_numbers"` // wrappers from the top type down to the map field (last element)
	N       int     `json:"entries"`
	Order   []int   `json:"insertion_order"`
	History string  `json:"history"`
	Hash0   uint32  `json:"hash0,omitempty"`
	Mode    uint32  `json:"mode"`
	Word    uint64  `json:"word"`
	K1      int64   `json:"k1"`
	W1      uint64  `json:"w1"`
	K2      int64   `json:"k2"`
	W2      uint64  `json:"w2"`
}

func setCtl(mode uint32, word uint64, k1 int64, w1 uint64, k2 int64, w2 uint64) {
	mapCtl.Mode, mapCtl.Word, mapCtl.K1, mapCtl.W1, mapCtl.K2, mapCtl.W2 = mode, word, k1, w1, k2, w2
	mapCtl.Count = 0
}

func ctlOff() { mapCtl.Mode = 0; mapCtl.FixHash = 0 }

type construction struct {
	top     protoreflect.MessageDescriptor
	path    []protoreflect.FieldDescriptor // hops; last is the map field
	n       int
	order   []int
	history string
}

func permutations(n int) [][]int {
	var out [][]int
	var rec func(cur []int, used []bool)
	rec = func(cur []int, used []bool) {
		if len(cur) == n {
			out = append(out, append([]int(nil), cur...))
			return
		}
		for i := 0; i < n; i++ {
			if !used[i] {
				used[i] = true
				rec(append(cur, i), used)
				used[i] = false
			}
		}
	}
	rec(nil, make([]bool, n))
	return out
}

// distinctKeys returns up to n distinct keys of the key kind, extremes first.
func distinctKeys(kfd protoreflect.FieldDescriptor, n int) []protoreflect.MapKey {
	al := enum.ScalarAlphabet(kfd, enum.Boundary)
	// interleave from both ends so that negative/huge and small keys mix
	var out []protoreflect.MapKey
	i, j := 0, len(al)-1
	for len(out) < n && i <= j {
		out = append(out, al[j].MapKey())
		if len(out) < n && i < j {
			out = append(out, al[i].MapKey())
		}
		i++
		j--
	}
	if len(out) < n && kfd.Kind() != protoreflect.BoolKind {
		// synthesise more keys for the large-map histories
		for x := 1000; len(out) < n; x++ {
			switch kfd.Kind() {
			case protoreflect.StringKind:
				out = append(out, protoreflect.ValueOfString(fmt.Sprintf("k%03d", x)).MapKey())
			case protoreflect.Int32Kind, protoreflect.Sint32Kind, protoreflect.Sfixed32Kind:
				out = append(out, protoreflect.ValueOfInt32(int32(x*7919)).MapKey())
			case protoreflect.Int64Kind, protoreflect.Sint64Kind, protoreflect.Sfixed64Kind:
				out = append(out, protoreflect.ValueOfInt64(int64(x)*-104729).MapKey())
			case protoreflect.Uint32Kind, protoreflect.Fixed32Kind:
				out = append(out, protoreflect.ValueOfUint32(uint32(x*7919)).MapKey())
			default:
				out = append(out, protoreflect.ValueOfUint64(uint64(x)*104729).MapKey())
			}
		}
	}
	return out
}

func mapValue(mp protoreflect.Map, vfd protoreflect.FieldDescriptor, i int) protoreflect.Value {
	if vfd.Kind() == protoreflect.MessageKind {
		nv := mp.NewValue()
		fs := vfd.Message().Fields()
		for k := 0; k < fs.Len(); k++ {
			f := fs.Get(k)
			if f.Kind() != protoreflect.MessageKind && !f.IsList() && !f.IsMap() && f.ContainingOneof() == nil {
				al := enum.ScalarAlphabet(f, enum.Reduced)
				nv.Message().Set(f, al[(i+1)%len(al)])
				break
			}
		}
		return nv
	}
	al := enum.ScalarAlphabet(vfd, enum.Reduced)
	v := al[i%len(al)]
	if vfd.Kind() == protoreflect.BytesKind {
		return protoreflect.ValueOfBytes(append([]byte(nil), v.Bytes()...))
	}
	return v
}

// fill performs the insertion history on the map reached through m (slow or dyn view).
func fill(m protoreflect.Message, c *construction) {
	cur := m
	for _, hop := range c.path[:len(c.path)-1] {
		fd := cur.Descriptor().Fields().ByNumber(hop.Number())
		switch {
		case fd.IsList():
			l := cur.Mutable(fd).List()
			l.Append(l.NewElement()) // an empty sibling first: the map sits in the second of two list elements
			e := l.NewElement()
			l.Append(e)
			cur = enum.Rewrap(l.Get(l.Len() - 1).Message())
		case fd.IsMap():
			mp := cur.Mutable(fd).Map()
			k := enum.ScalarAlphabet(fd.MapKey(), enum.Reduced)[1].MapKey()
			mp.Set(k, mp.NewValue())
			cur = enum.Rewrap(mp.Get(k).Message())
		default:
			cur = enum.Rewrap(cur.Mutable(fd).Message())
		}
	}
	mfd := cur.Descriptor().Fields().ByNumber(c.path[len(c.path)-1].Number())
	mp := cur.Mutable(mfd).Map()
	extra := 0
	switch c.history {
	case "insert+2,delete2":
		extra = 2
	case "grow12,delete-down":
		extra = 12 - c.n
		if extra < 0 {
			extra = 0
		}
	}
	keys := distinctKeys(mfd.MapKey(), c.n+extra)
	if len(keys) < c.n {
		return
	}
	if extra > len(keys)-c.n {
		extra = len(keys) - c.n
	}
	// extras first and interleaved, then deleted
	for i := 0; i < extra; i++ {
		mp.Set(keys[c.n+i], mapValue(mp, mfd.MapValue(), 0))
	}
	for _, idx := range c.order {
		mp.Set(keys[idx], mapValue(mp, mfd.MapValue(), idx))
	}
	for i := 0; i < extra; i++ {
		mp.Clear(keys[c.n+i])
	}
}

func shapeKey(c *construction) string {
	mfd := c.path[len(c.path)-1]
	s := fmt.Sprintf("map<%s,%s>", mfd.MapKey().Kind(), mfd.MapValue().Kind())
	w := ""
	for _, hop := range c.path[:len(c.path)-1] {
		switch {
		case hop.IsList():
			w += "list>"
		case hop.IsMap():
			w += "mapvalue>"
		case hop.ContainingOneof() != nil && !hop.ContainingOneof().IsSynthetic():
			w += "oneof>"
		default:
			w += "message>"
		}
	}
	return fmt.Sprintf("%s%s/depth%d", w, s, len(c.path)-1)
}

type stats struct {
	constructions, marshals, vectors int64
	nondetDistinct                   map[string]int
	maxNondetOutputs                 int
}

func explore(h *hz.H, c *construction, st *stats, hash0s []uint32) {
	for _, h0 := range hash0s {
		if h0 != 0 {
			mapCtl.FixHash, mapCtl.Hash0 = 1, h0
		} else {
			mapCtl.FixHash = 0
		}
		ctlOff2 := func() { mapCtl.Mode = 0 }
		ctlOff2()
		// reference value and bytes (dynamicpb, untouched by the order of insertion)
		d := enum.NewDyn(c.top)
		fill(d, c)
		ref, err := proto.MarshalOptions{Deterministic: true}.Marshal(d)
		if err != nil {
			h.InternalError("reference marshal failed: " + err.Error())
			return
		}
		g := enum.NewGo(c.top)
		fill(enum.Slow(g), c)
		if enum.Canon(enum.Slow(g), true) != enum.Canon(d, false) {
			h.InternalError("construction mismatch between struct and dynamicpb for " + shapeKey(c))
			return
		}
		st.constructions++
		mk := func() mcase {
			mc := mcase{Type: string(c.top.FullName()), N: c.n, Order: c.order, History: c.history, Hash0: h0,
				Mode: mapCtl.Mode, Word: mapCtl.Word, K1: mapCtl.K1, W1: mapCtl.W1, K2: mapCtl.K2, W2: mapCtl.W2}
			for _, hop := range c.path {
				mc.Path = append(mc.Path, int32(hop.Number()))
			}
			return mc
		}
		nondet := map[string]bool{}
		try := func() bool {
			st.marshals++
			st.vectors++
			var out []byte
			var sz int
			var merr error
			mc := mk()
			var direct []byte
			var derr error
			p := hz.Catch(func() {
				sz = proto.MarshalOptions{Deterministic: true}.Size(g)
				out, merr = proto.MarshalOptions{Deterministic: true}.Marshal(g)
				// the generated method called the way a codec other than proto.Marshal calls it: the Deterministic flag alone
				fm := g.ProtoReflect()
				mapCtl.Count = 0 // the same deviation indexes apply to this call's iterations
				if meth := fm.ProtoMethods(); meth != nil && meth.Marshal != nil {
					var o protoiface.MarshalOutput
					o, derr = meth.Marshal(protoiface.MarshalInput{Message: fm, Flags: protoiface.MarshalDeterministic})
					direct = o.Buf
				} else {
					direct = out
				}
			})
			mode, word, k1, w1, k2, w2 := mapCtl.Mode, mapCtl.Word, mapCtl.K1, mapCtl.W1, mapCtl.K2, mapCtl.W2
			// same choice, non-deterministic mode: diversity witness that the control really permutes iteration
			mapCtl.Count = 0
			hz.Catch(func() {
				if nd, e := (proto.MarshalOptions{}).Marshal(g); e == nil {
					nondet[string(nd)] = true
				}
				fm := g.ProtoReflect()
				if meth := fm.ProtoMethods(); meth != nil && meth.Marshal != nil {
					if o, e := meth.Marshal(protoiface.MarshalInput{Message: fm}); e == nil {
						nondet[string(o.Buf)] = true
					}
				}
			})
			if p != nil || merr != nil {
				mapCtl.Mode = 0
				h.ViolateMin("C05/marshal-failed/"+shapeKey(c), fmt.Sprintf("deterministic Marshal failed for %s (%s, order %v): panic=%v err=%v", shapeKey(c), c.history, c.order, p, merr), mc, c.n)
				mapCtl.Mode = mode
				return false
			}
			if !bytes.Equal(out, ref) || sz != len(ref) {
				mapCtl.Mode = 0
				h.ViolateMin(fmt.Sprintf("C05/bytes-depend-on-iteration-order/%s/%s", shapeKey(c), c.history), fmt.Sprintf("Deterministic marshal of %s on %s (%d entries inserted in order %v, history %s, hash0=%#x) under map-iteration choice {mode %d word %d dev %d:%d %d:%d} gives %x (size %d); reference and other choices give %x", shapeKey(c), c.top.FullName(), c.n, c.order, c.history, h0, mode, word, k1, w1, k2, w2, out, sz, ref), mc, c.n)
				mapCtl.Mode = mode
				return false
			}
			if derr != nil || !bytes.Equal(direct, ref) {
				mapCtl.Mode = 0
				h.ViolateMin(fmt.Sprintf("C05/methods-marshal-with-deterministic-flag/%s/%s", shapeKey(c), c.history), fmt.Sprintf("ProtoMethods().Marshal with Flags=MarshalDeterministic on %s of %s (%d entries inserted in order %v, history %s, hash0=%#x) under map-iteration choice {mode %d word %d dev %d:%d %d:%d} gives %x err=%v; proto.MarshalOptions{Deterministic} and the reference give %x", shapeKey(c), c.top.FullName(), c.n, c.order, c.history, h0, mode, word, k1, w1, k2, w2, direct, derr, ref), mc, c.n)
				mapCtl.Mode = mode
				return false
			}
			return true
		}
		// baseline: learn the number of iterations and each one's B
		setCtl(1, 0, -1, 0, -1, 0)
		try()
		// count iterations of one deterministic Size+Marshal
		setCtl(1, 0, -1, 0, -1, 0)
		proto.MarshalOptions{Deterministic: true}.Size(g)
		proto.MarshalOptions{Deterministic: true}.Marshal(g)
		N := int(mapCtl.Count)
		if N > 64 {
			N = 64
		}
		Bs := make([]uint8, N)
		copy(Bs, mapCtl.B[:N])
		maxB := uint8(0)
		for _, b := range Bs {
			if b > maxB {
				maxB = b
			}
		}
		if N == 0 {
			h.InternalError("vacuous: a marshal of a value with a map performed no map iteration (control not linked in?)")
			ctlOff()
			return
		}
		// global word
		for r := uint64(1); r < uint64(8)<<maxB; r++ {
			setCtl(1, r, -1, 0, -1, 0)
			if !try() {
				break
			}
		}
		// single deviation
		for k := 0; k < N; k++ {
			for r := uint64(1); r < uint64(8)<<Bs[k]; r++ {
				setCtl(2, 0, int64(k), r, -1, 0)
				if !try() {
					break
				}
			}
		}
		if h.Thorough() {
			for k1 := 0; k1 < N; k1++ {
				for k2 := k1 + 1; k2 < N; k2++ {
					for r1 := uint64(1); r1 < uint64(8)<<Bs[k1]; r1 += 1 {
						for r2 := uint64(1); r2 < uint64(8)<<Bs[k2]; r2 += 3 {
							setCtl(2, 0, int64(k1), r1, int64(k2), r2)
							if !try() {
								break
							}
						}
					}
				}
			}
		}
		// repeated calls on the same object, runtime randomness untouched
		ctlOff()
		for i := 0; i < 3; i++ {
			out, _ := proto.MarshalOptions{Deterministic: true}.Marshal(g)
			st.marshals++
			if !bytes.Equal(out, ref) {
				h.ViolateMin("C05/repeat-differs/"+shapeKey(c), fmt.Sprintf("repeated deterministic Marshal of the same %s object differs: %x vs %x", c.top.FullName(), out, ref), mk(), c.n)
			}
		}
		if c.n >= 2 {
			if len(nondet) > st.maxNondetOutputs {
				st.maxNondetOutputs = len(nondet)
			}
			st.nondetDistinct[fmt.Sprint(c.n)] += len(nondet)
		}
		h.Eval(c.n >= 2, hz.Hash("C05", string(c.top.FullName()), fmt.Sprint(pathNums(c)), fmt.Sprint(c.n), fmt.Sprint(c.order), c.history, fmt.Sprint(h0)))
		if h.WantSample() && c.n >= 2 && len(c.path) > 1 {
			h.Sample(map[string]interface{}{"type": string(c.top.FullName()), "path": pathNums(c), "shape": shapeKey(c), "entries": c.n, "insertion_order": c.order, "history": c.history,
				"map_iterations_per_size_plus_marshal": N, "bucket_bits": fmt.Sprint(Bs), "distinct_outputs_in_non_deterministic_mode": len(nondet), "deterministic_bytes_hex": fmt.Sprintf("%x", ref)})
		}
	}
	ctlOff()
}

func pathNums(c *construction) []int32 {
	var o []int32
	for _, hop := range c.path {
		o = append(o, int32(hop.Number()))
	}
	return o
}

// wrappersOf lists (type P, field) pairs whose field holds messages of type T.
func wrappersOf(types []protoreflect.MessageDescriptor, t protoreflect.MessageDescriptor) [][2]interface{} {
	var out [][2]interface{}
	for _, p := range types {
		fs := p.Fields()
		for i := 0; i < fs.Len(); i++ {
			fd := fs.Get(i)
			var target protoreflect.MessageDescriptor
			if fd.IsMap() {
				if fd.MapValue().Kind() == protoreflect.MessageKind {
					target = fd.MapValue().Message()
				}
			} else if fd.Kind() == protoreflect.MessageKind {
				target = fd.Message()
			}
			if target != nil && target.FullName() == t.FullName() {
				out = append(out, [2]interface{}{p, fd})
			}
		}
	}
	return out
}

func main() {
	runtime.GOMAXPROCS(2)
	h := hz.New()
	if h.Prop != "C05" {
		fmt.Fprintln(os.Stderr, "INTERNAL: engine mapspace serves C05 only")
		os.Exit(2)
	}
	types := enum.TypesMatching("")
	if h.Replay != "" {
		var mc mcase
		h.LoadReplay(&mc)
		var top protoreflect.MessageDescriptor
		for _, md := range types {
			if string(md.FullName()) == mc.Type {
				top = md
			}
		}
		if top == nil {
			h.InternalError("replay: type not present")
			h.Finish()
		}
		c := &construction{top: top, n: mc.N, order: mc.Order, history: mc.History}
		cur := top
		for _, n := range mc.Path {
			fd := cur.Fields().ByNumber(protoreflect.FieldNumber(n))
			c.path = append(c.path, fd)
			if fd.IsMap() && fd.MapValue().Kind() == protoreflect.MessageKind {
				cur = fd.MapValue().Message()
			} else if fd.Kind() == protoreflect.MessageKind && !fd.IsMap() {
				cur = fd.Message()
			}
		}
		st := &stats{nondetDistinct: map[string]int{}}
		explore(h, c, st, []uint32{mc.Hash0})
		h.Eval(true, 1)
		h.Eval(true, 2)
		h.Finish()
	}
	maxN := 3
	if h.Thorough() {
		maxN = 4
	}
	var cons []*construction
	addFor := func(top protoreflect.MessageDescriptor, path []protoreflect.FieldDescriptor, full bool) {
		mfd := path[len(path)-1]
		limit := maxN
		if mfd.MapKey().Kind() == protoreflect.BoolKind && limit > 2 {
			limit = 2
		}
		if !full && limit > 2 {
			limit = 2
		}
		for n := 1; n <= limit; n++ {
			for _, p := range permutations(n) {
				cons = append(cons, &construction{top: top, path: path, n: n, order: p, history: "insert"})
			}
			id := make([]int, n)
			for i := range id {
				id[i] = i
			}
			cons = append(cons, &construction{top: top, path: path, n: n, order: id, history: "insert+2,delete2"})
			if n == limit && mfd.MapKey().Kind() != protoreflect.BoolKind && full {
				cons = append(cons, &construction{top: top, path: path, n: n, order: id, history: "grow12,delete-down"})
			}
		}
		if full && mfd.MapKey().Kind() != protoreflect.BoolKind {
			id := make([]int, 12)
			for i := range id {
				id[i] = (i * 5) % 12
			}
			cons = append(cons, &construction{top: top, path: path, n: 12, order: id, history: "insert"})
			if len(path) == 1 {
				// large enough for sort.Slice to leave its insertion-sort regime
				id20 := make([]int, 20)
				for i := range id20 {
					id20[i] = (i * 7) % 20
				}
				cons = append(cons, &construction{top: top, path: path, n: 20, order: id20, history: "insert"})
			}
		}
	}
	seenPath := map[string]bool{}
	for _, t := range types {
		fs := t.Fields()
		for i := 0; i < fs.Len(); i++ {
			fd := fs.Get(i)
			if !fd.IsMap() {
				continue
			}
			addFor(t, []protoreflect.FieldDescriptor{fd}, true)
			// depth 1 and 2: every way a pulsar type embeds t
			for _, w1 := range wrappersOf(types, t) {
				p1 := w1[0].(protoreflect.MessageDescriptor)
				f1 := w1[1].(protoreflect.FieldDescriptor)
				key := fmt.Sprintf("%s.%d>%s.%d", p1.FullName(), f1.Number(), t.FullName(), fd.Number())
				if seenPath[key] {
					continue
				}
				seenPath[key] = true
				addFor(p1, []protoreflect.FieldDescriptor{f1, fd}, false)
				if !h.Thorough() && t.Fields().Len() > 20 {
					continue
				}
				for _, w2 := range wrappersOf(types, p1) {
					p2 := w2[0].(protoreflect.MessageDescriptor)
					f2 := w2[1].(protoreflect.FieldDescriptor)
					key2 := fmt.Sprintf("%s.%d>%s", p2.FullName(), f2.Number(), key)
					if seenPath[key2] {
						continue
					}
					seenPath[key2] = true
					if i == firstMapIndex(t) || h.Thorough() {
						addFor(p2, []protoreflect.FieldDescriptor{f2, f1, fd}, false)
					}
				}
			}
		}
	}
	sort.SliceStable(cons, func(a, b int) bool { return cons[a].n < cons[b].n })
	st := &stats{nondetDistinct: map[string]int{}}
	h.Rep.Bounds["constructions"] = len(cons)
	h.Rep.Bounds["max_entries_all_orders"] = maxN
	h.Rep.Bounds["large_map_entries"] = "12 and 20"
	h.Rep.Bounds["choice_vectors"] = "one global word r in [0, 8*2^B); one deviating iteration (every k, every r); thorough: two deviating iterations"
	for i, c := range cons {
		if i&15 == 0 && h.Expired() {
			h.Cap(fmt.Sprintf("time budget reached after %d of %d constructions", i, len(cons)))
			break
		}
		h0s := []uint32{0}
		if c.n > 8 {
			h0s = []uint32{1, 0xdeadbeef, 0}
		}
		explore(h, c, st, h0s)
	}
	ctlOff()
	h.Rep.States = st.vectors
	h.Rep.Transitions = st.marshals
	h.Rep.Traces = st.constructions
	h.AddExtra("distinct_outputs_seen_in_non_deterministic_mode_max", st.maxNondetOutputs)
	if st.maxNondetOutputs < 2 && h.NViolations() == 0 {
		h.InternalError("vacuous: the map-iteration control never changed a non-deterministic encoding")
	}
	h.Rep.Rule = "constructions = every map field of every pulsar type, at depth 0 and embedded one and two levels deep (singular message, list element, map value, oneof member) x entries n=1..N in ALL n! insertion orders + insert-then-delete histories + a 12-entry map (3 hash seeds); for each: every map-iteration choice vector (state) x deterministic Size+Marshal (transition); non-trivial = n>=2; distinct = hash(type, path, n, order, history, hash0)"
	h.Rep.Assumptions = []string{"Go 1.23 runtime: iteration order of a map is a function of its bucket layout, of hash0 (only when it has more than one bucket) and of the random word drawn in mapiterinit; the patched runtime/map.go changes only where those words come from", "single-threaded engine: the control block is process-global"}
	h.Finish()
}

func firstMapIndex(t protoreflect.MessageDescriptor) int {
	fs := t.Fields()
	for i := 0; i < fs.Len(); i++ {
		if fs.Get(i).IsMap() {
			return i
		}
	}
	return -1
}
