package main

import (
	"bytes"
	"errors"
	"fmt"
	cosmos_proto "github.com/cosmos/cosmos-proto"
	"google.golang.org/protobuf/types/known/structpb"
	"strings"

	"github.com/cosmos/cosmos-proto/anyutil"
	"github.com/cosmos/cosmos-proto/internal/zzverif/enum"
	"github.com/cosmos/cosmos-proto/internal/zzverif/hz"
	"google.golang.org/protobuf/proto"
	"google.golang.org/protobuf/reflect/protodesc"
	"google.golang.org/protobuf/reflect/protoreflect"
	"google.golang.org/protobuf/reflect/protoregistry"
	"google.golang.org/protobuf/types/descriptorpb"
	"google.golang.org/protobuf/types/dynamicpb"
	"google.golang.org/protobuf/types/known/anypb"
	_ "google.golang.org/protobuf/types/known/durationpb"
	_ "google.golang.org/protobuf/types/known/emptypb"
	_ "google.golang.org/protobuf/types/known/fieldmaskpb"
	_ "google.golang.org/protobuf/types/known/timestamppb"
)

type c16case struct {
	Kind     string `json:"kind"` // pack | unpack-matrix | failed-pack
	Type     string `json:"type,omitempty"`
	ValueHex string `json:"value_hex,omitempty"`
	Opts     string `json:"options,omitempty"`
	URL      string `json:"type_url,omitempty"`
	TypeRes  string `json:"type_resolver,omitempty"`
	FileRes  string `json:"file_resolver,omitempty"`
	Src      string `json:"source,omitempty"`
}

// dynOnly builds a message type that exists only as a descriptor (absent from the global registries).
func dynOnlyFile() protoreflect.FileDescriptor {
	fdp := &descriptorpb.FileDescriptorProto{
		Name: proto.String("verif/dynonly.proto"), Package: proto.String("verif.dynonly"), Syntax: proto.String("proto3"),
		MessageType: []*descriptorpb.DescriptorProto{{
			Name: proto.String("DynOnly"),
			Field: []*descriptorpb.FieldDescriptorProto{
				{Name: proto.String("a"), Number: proto.Int32(1), Type: descriptorpb.FieldDescriptorProto_TYPE_INT32.Enum(), Label: descriptorpb.FieldDescriptorProto_LABEL_OPTIONAL.Enum()},
				{Name: proto.String("s"), Number: proto.Int32(2), Type: descriptorpb.FieldDescriptorProto_TYPE_STRING.Enum(), Label: descriptorpb.FieldDescriptorProto_LABEL_OPTIONAL.Enum()},
				{Name: proto.String("m"), Number: proto.Int32(3), Type: descriptorpb.FieldDescriptorProto_TYPE_MESSAGE.Enum(), TypeName: proto.String(".verif.dynonly.DynOnly"), Label: descriptorpb.FieldDescriptorProto_LABEL_REPEATED.Enum()},
			},
		}},
		EnumType: []*descriptorpb.EnumDescriptorProto{{Name: proto.String("DynEnum"), Value: []*descriptorpb.EnumValueDescriptorProto{{Name: proto.String("DYN_ZERO"), Number: proto.Int32(0)}}}},
		Service:  []*descriptorpb.ServiceDescriptorProto{{Name: proto.String("DynSvc"), Method: []*descriptorpb.MethodDescriptorProto{{Name: proto.String("Do"), InputType: proto.String(".verif.dynonly.DynOnly"), OutputType: proto.String(".verif.dynonly.DynOnly")}}}},
	}
	fd, err := protodesc.NewFile(fdp, protoregistry.GlobalFiles)
	if err != nil {
		panic(err)
	}
	return fd
}

type errResolver struct{}

var errCustom = errors.New("custom resolver failure")

func (errResolver) FindMessageByName(protoreflect.FullName) (protoreflect.MessageType, error) {
	return nil, errCustom
}
func (errResolver) FindMessageByURL(string) (protoreflect.MessageType, error) { return nil, errCustom }

type errFiles struct{}

func (errFiles) FindFileByPath(string) (protoreflect.FileDescriptor, error) { return nil, errCustom }
func (errFiles) FindDescriptorByName(protoreflect.FullName) (protoreflect.Descriptor, error) {
	return nil, errCustom
}

func c16Types() []protoreflect.MessageDescriptor {
	out := enum.PulsarTypes()
	for _, n := range []protoreflect.FullName{"google.protobuf.Any", "google.protobuf.Timestamp", "google.protobuf.Duration", "google.protobuf.FieldMask", "google.protobuf.Empty", "cosmos_proto.ScalarDescriptor", "cosmos_proto.InterfaceDescriptor"} {
		if mt, err := protoregistry.GlobalTypes.FindMessageByName(n); err == nil {
			out = append(out, mt.Descriptor())
		}
	}
	return out
}

func checkPack(h *hz.H, md protoreflect.MessageDescriptor, d protoreflect.Message, label string, dynFiles *protoregistry.Files, registered, srcDynamic bool) {
	tname := string(md.FullName())
	var src proto.Message
	if registered && !srcDynamic {
		src = enum.BuildGo(d)
	} else {
		src = d.Interface() // a dynamicpb message: every type shares one Go type
		label += " (dynamic source)"
	}
	ref, _ := proto.MarshalOptions{Deterministic: true}.Marshal(d.Interface())
	canon := enum.Canon(d, false)
	for _, on := range []string{"default", "Deterministic", "AllowPartial"} {
		opts := proto.MarshalOptions{Deterministic: on == "Deterministic", AllowPartial: on == "AllowPartial"}
		c := c16case{Kind: "pack", Type: tname, ValueHex: fmt.Sprintf("%x", ref), Opts: on}
		key := func(o string) string {
			if srcDynamic {
				o += "/dynamic-source"
			}
			return fmt.Sprintf("C16/pack/%s/%s@%s", o, on, tname)
		}
		h.Eval(len(ref) > 0, hz.HashBytes([]byte("C16"), []byte(tname), []byte(on), ref))
		dst := &anypb.Any{}
		var err error
		if p := hz.Catch(func() { err = anyutil.MarshalFrom(dst, src, opts) }); p != nil || err != nil {
			h.Violate(key("failed"), fmt.Sprintf("MarshalFrom(%s %s, %s) failed: panic=%v err=%v", tname, label, on, p, err), c)
			continue
		}
		if dst.TypeUrl != "/"+tname {
			h.Violate(key("type-url"), fmt.Sprintf("MarshalFrom(%s): TypeUrl = %q, want %q", tname, dst.TypeUrl, "/"+tname), c)
			continue
		}
		if on == "Deterministic" && !bytes.Equal(dst.Value, ref) {
			h.Violate(key("value"), fmt.Sprintf("MarshalFrom(%s %s, Deterministic): Value = %x, want %x", tname, label, dst.Value, ref), c)
			continue
		}
		chk := enum.NewDyn(md)
		if e := proto.Unmarshal(dst.Value, chk); e != nil || enum.Canon(chk, false) != canon {
			h.Violate(key("value"), fmt.Sprintf("MarshalFrom(%s %s, %s): Value %x is not an encoding of the message (err %v)", tname, label, on, dst.Value, e), c)
			continue
		}
		if on == "default" {
			// a destination that is not fresh: whatever it named before (the same type in a non-canonical spelling, another
			// type, garbage), a successful pack leaves exactly "/" + full name and the encoding
			for _, prev := range []string{"type.googleapis.com/" + tname, tname, "x/y/" + tname, "/" + tname + "x", "/google.protobuf.Empty", "garbage"} {
				d2 := &anypb.Any{TypeUrl: prev, Value: []byte{0xde, 0xad}}
				var e2 error
				h.Eval(true, hz.Hash("C16reuse", tname, prev, fmt.Sprintf("%x", ref)))
				if p := hz.Catch(func() { e2 = anyutil.MarshalFrom(d2, src, proto.MarshalOptions{Deterministic: true}) }); p != nil || e2 != nil || d2.TypeUrl != "/"+tname || !bytes.Equal(d2.Value, ref) {
					cc := c
					cc.URL = prev
					h.Violate(key("reused-destination"), fmt.Sprintf("MarshalFrom(%s %s) into a destination that held TypeUrl %q: panic=%v err=%v, now TypeUrl=%q Value=%x; want %q and %x", tname, label, prev, p, e2, d2.TypeUrl, d2.Value, "/"+tname, ref), cc)
					break
				}
			}
			var a2 *anypb.Any
			if p := hz.Catch(func() { a2, err = anyutil.New(src) }); p != nil || err != nil || a2 == nil || a2.TypeUrl != dst.TypeUrl {
				h.Violate(key("new"), fmt.Sprintf("anyutil.New(%s %s): panic=%v err=%v any=%v", tname, label, p, err, a2), c)
				continue
			}
		}
		// unpack: through the type registry, and through the file registry with an empty type registry
		var m1, m2 proto.Message
		var e1, e2 error
		var files protodesc.Resolver
		if !registered {
			files = dynFiles
		}
		if p := hz.Catch(func() { m1, e1 = anyutil.Unpack(dst, files, nil) }); p != nil || e1 != nil || m1 == nil {
			h.Violate(key("unpack-default"), fmt.Sprintf("Unpack(Any{%s}) with default resolvers: panic=%v err=%v", dst.TypeUrl, p, e1), c)
			continue
		}
		if p := hz.Catch(func() { m2, e2 = anyutil.Unpack(dst, files, &protoregistry.Types{}) }); p != nil || e2 != nil || m2 == nil {
			h.Violate(key("unpack-files"), fmt.Sprintf("Unpack(Any{%s}) with an empty type registry: panic=%v err=%v", dst.TypeUrl, p, e2), c)
			continue
		}
		if _, isDyn := m2.(*dynamicpb.Message); !isDyn {
			h.Violate(key("unpack-files-kind"), fmt.Sprintf("Unpack with an empty type registry returned %T, want a dynamic message", m2), c)
			continue
		}
		if registered {
			if _, isDyn := m1.(*dynamicpb.Message); isDyn {
				h.Violate(key("unpack-default-kind"), fmt.Sprintf("Unpack through the global type registry returned a dynamic message for registered type %s", tname), c)
				continue
			}
		}
		c1 := enum.Canon(m1.ProtoReflect(), !isDynMsg(m1))
		c2 := enum.Canon(m2.ProtoReflect(), false)
		if c1 != canon || c2 != canon {
			h.Violate(key("unpack-value"), fmt.Sprintf("Unpack(Pack(%s %s)) differs from the message:\n want   %s\n types  %s\n files  %s", tname, label, clipS(canon), clipS(c1), clipS(c2)), c)
			continue
		}
		b1, _ := proto.MarshalOptions{Deterministic: true}.Marshal(m1)
		b2, _ := proto.MarshalOptions{Deterministic: true}.Marshal(m2)
		if !bytes.Equal(b1, b2) || !bytes.Equal(b1, ref) {
			h.Violate(key("unpack-bytes"), fmt.Sprintf("the two unpack paths re-marshal differently for %s %s: %x vs %x (reference %x)", tname, label, b1, b2, ref), c)
		}
		if h.WantSample() && len(ref) > 0 {
			h.Sample(map[string]interface{}{"kind": "pack/unpack", "type": tname, "value": label, "options": on, "type_url": dst.TypeUrl, "value_hex": fmt.Sprintf("%x", dst.Value)})
		}
	}
}

func firstScalar(md protoreflect.MessageDescriptor) protoreflect.FieldDescriptor {
	fs := md.Fields()
	for i := 0; i < fs.Len(); i++ {
		if fd := fs.Get(i); fd.Message() == nil && !fd.IsList() && !fd.IsMap() && fd.ContainingOneof() == nil && fd.Kind() != protoreflect.EnumKind {
			return fd
		}
	}
	return nil
}

func sampleScalar(fd protoreflect.FieldDescriptor) protoreflect.Value {
	al := enum.ScalarAlphabet(fd, enum.Reduced)
	return al[1]
}

func typeResolversForExt() map[string]protoregistry.MessageTypeResolver {
	only := &protoregistry.Types{}
	if mt, err := protoregistry.GlobalTypes.FindMessageByName("B"); err == nil {
		only.RegisterMessage(mt)
	}
	return map[string]protoregistry.MessageTypeResolver{"nil(global)": nil, "empty": &protoregistry.Types{}, "only-B": only, "global": protoregistry.GlobalTypes}
}

func firstDiff(a, b []byte) int {
	for i := 0; i < len(a) && i < len(b); i++ {
		if a[i] != b[i] {
			return i
		}
	}
	if len(a) < len(b) {
		return len(a)
	}
	return len(b)
}

func clipB(b []byte) []byte {
	if len(b) > 24 {
		return b[:24]
	}
	return b
}

func isDynMsg(m proto.Message) bool { _, ok := m.(*dynamicpb.Message); return ok }

func clipS(s string) string {
	if len(s) > 200 {
		return s[:200] + "…"
	}
	return s
}

func runC16(h *hz.H) {
	dynFD := dynOnlyFile()
	dynFiles := &protoregistry.Files{}
	dynFiles.RegisterFile(dynFD)
	dynMD := dynFD.Messages().Get(0)
	types := c16Types()
	if len(types) < 10 {
		h.InternalError("vacuous: too few message types")
		return
	}
	var names []string
	// (1) faithful pack/unpack for every <=1-slot value of every type
	for _, md := range append(append([]protoreflect.MessageDescriptor{}, types...), dynMD) {
		sp := enum.NewSpace(md, enum.Opts{Top: enum.Reduced, MaxDepth: 1})
		n := 0
		registered := md.FullName() != dynMD.FullName()
		sp.ForEach(1, 1, func(c enum.Case) bool {
			checkPack(h, md, sp.BuildDyn(c), sp.Label(c), dynFiles, registered, false)
			if registered && n < 3 {
				// the same value held by a dynamic message: packing dynamic messages of many different types in one process
				checkPack(h, md, sp.BuildDyn(c), sp.Label(c), dynFiles, registered, true)
			}
			n++
			return true
		})
		names = append(names, fmt.Sprintf("%s: %d values", md.FullName(), n))
	}
	h.Rep.Bounds["types"] = names
	// (1b) packed values stay what they were: histories of packs of growing and shrinking sizes (each size record of a
	// string field: 40, 600, 5000, 70000 bytes, a small value after each), every earlier Any re-checked after every pack
	{
		type kept struct {
			a    *anypb.Any
			ref  []byte
			url  string
			what string
		}
		var keptAll []kept
		recheck := func(after string) {
			for _, k := range keptAll {
				if k.a.TypeUrl != k.url || !bytes.Equal(k.a.Value, k.ref) {
					h.Violate("C16/pack/earlier-any-changed-by-a-later-pack", fmt.Sprintf("the Any packed from %s (%d bytes) changed after the later pack of %s: TypeUrl %q (was %q), Value now %x... (was %x...)", k.what, len(k.ref), after, k.a.TypeUrl, k.url, clipB(k.a.Value), clipB(k.ref)), c16case{Kind: "pack-history", Type: k.what})
					return
				}
			}
		}
		n := 0
		for _, md := range types {
			var sfd protoreflect.FieldDescriptor
			for i := 0; i < md.Fields().Len(); i++ {
				if f := md.Fields().Get(i); (f.Kind() == protoreflect.StringKind || f.Kind() == protoreflect.BytesKind) && !f.IsList() && !f.IsMap() && f.ContainingOneof() == nil {
					sfd = f
					break
				}
			}
			if sfd == nil || n >= 4 {
				continue
			}
			n++
			for _, size := range []int{40, 600, 5000, 70000, 30} {
				d := enum.NewDyn(md)
				if sfd.Kind() == protoreflect.StringKind {
					d.Set(sfd, protoreflect.ValueOfString(strings.Repeat(string(rune('a'+size%7)), size)))
				} else {
					d.Set(sfd, protoreflect.ValueOfBytes(bytes.Repeat([]byte{byte(size)}, size)))
				}
				for _, src := range []proto.Message{enum.BuildGo(d), d.Interface()} {
					what := fmt.Sprintf("%s{%s=%d bytes}", md.FullName(), sfd.Name(), size)
					a, err := anyutil.New(src)
					h.Eval(true, hz.Hash("C16hist", what, fmt.Sprintf("%T", src)))
					if err != nil {
						h.Violate("C16/pack/failed/history", fmt.Sprintf("anyutil.New(%s) failed: %v", what, err), c16case{Kind: "pack-history", Type: what})
						continue
					}
					recheck(what)
					chk := enum.NewDyn(md)
					if e := proto.Unmarshal(a.Value, chk); e != nil || enum.Canon(chk, false) != enum.Canon(d, false) {
						h.Violate("C16/pack/value/history", fmt.Sprintf("anyutil.New(%s): Value is not an encoding of the message (err %v)", what, e), c16case{Kind: "pack-history", Type: what})
						continue
					}
					keptAll = append(keptAll, kept{a, append([]byte(nil), a.Value...), a.TypeUrl, what})
				}
			}
		}
	}
	// (1c) large messages holding maps with many entries, packed under each option: with Deterministic the Value is THE
	// deterministic encoding (compared byte for byte with the reference encoder's, 4 packs each), otherwise an encoding
	bigMaps := 0
	for _, md := range types {
		var sfd protoreflect.FieldDescriptor
		for i := 0; i < md.Fields().Len(); i++ {
			if f := md.Fields().Get(i); f.Kind() == protoreflect.StringKind && !f.IsList() && !f.IsMap() && f.ContainingOneof() == nil {
				sfd = f
				break
			}
		}
		for i := 0; i < md.Fields().Len(); i++ {
			mfd := md.Fields().Get(i)
			if !mfd.IsMap() || bigMaps >= 40 {
				continue
			}
			d := enum.NewDyn(md)
			mp := d.Mutable(mfd).Map()
			for e := 0; e < 80; e++ {
				var k protoreflect.Value
				switch mfd.MapKey().Kind() {
				case protoreflect.BoolKind:
					k = protoreflect.ValueOfBool(e%2 == 1)
				case protoreflect.StringKind:
					k = protoreflect.ValueOfString(fmt.Sprintf("k%03d", (e*37)%80))
				case protoreflect.Int32Kind, protoreflect.Sint32Kind, protoreflect.Sfixed32Kind:
					k = protoreflect.ValueOfInt32(int32((e*37)%80 - 40))
				case protoreflect.Int64Kind, protoreflect.Sint64Kind, protoreflect.Sfixed64Kind:
					k = protoreflect.ValueOfInt64(int64((e*37)%80 - 40))
				case protoreflect.Uint32Kind, protoreflect.Fixed32Kind:
					k = protoreflect.ValueOfUint32(uint32((e * 37) % 80))
				default:
					k = protoreflect.ValueOfUint64(uint64((e * 37) % 80))
				}
				v := mp.NewValue()
				if mfd.MapValue().Kind() == protoreflect.StringKind {
					v = protoreflect.ValueOfString(fmt.Sprintf("v%d", e))
				}
				mp.Set(k.MapKey(), v)
			}
			if sfd != nil {
				d.Set(sfd, protoreflect.ValueOfString(strings.Repeat("s", 300)))
			}
			ref, _ := proto.MarshalOptions{Deterministic: true}.Marshal(d.Interface())
			if len(ref) < 256 || mp.Len() < 2 {
				continue
			}
			bigMaps++
			what := fmt.Sprintf("%s{%s: %d entries, %d bytes in all}", md.FullName(), mfd.Name(), mp.Len(), len(ref))
			for _, src := range []proto.Message{enum.BuildGo(d), d.Interface()} {
				for rep := 0; rep < 4; rep++ {
					for _, on := range []string{"Deterministic", "default"} {
						dst := &anypb.Any{}
						var err error
						p := hz.Catch(func() {
							err = anyutil.MarshalFrom(dst, src, proto.MarshalOptions{Deterministic: on == "Deterministic"})
						})
						h.Eval(true, hz.Hash("C16big", what, on, fmt.Sprintf("%T", src)))
						c := c16case{Kind: "pack-big-map", Type: string(md.FullName()), Src: string(mfd.Name()), Opts: on}
						if p != nil || err != nil {
							h.Violate("C16/pack/failed/big-map/"+on, fmt.Sprintf("MarshalFrom(%s, %s) failed: panic=%v err=%v", what, on, p, err), c)
							continue
						}
						if on == "Deterministic" && !bytes.Equal(dst.Value, ref) {
							h.Violate("C16/pack/value/big-map/Deterministic", fmt.Sprintf("MarshalFrom(%s %T, Deterministic): Value is not the deterministic encoding (first difference at byte %d of %d)", what, src, firstDiff(dst.Value, ref), len(ref)), c)
							continue
						}
						chk := enum.NewDyn(md)
						if e := proto.Unmarshal(dst.Value, chk); e != nil || enum.Canon(chk, false) != enum.Canon(d, false) {
							h.Violate("C16/pack/value/big-map/"+on, fmt.Sprintf("MarshalFrom(%s, %s): Value is not an encoding of the message (err %v)", what, on, e), c)
						}
					}
				}
			}
		}
	}
	h.Rep.Bounds["big_map_messages"] = bigMaps
	// (1e) deeply nested messages (chains of 12, 40 and 200 levels along every directly self-referential singular field,
	// and google.protobuf.Struct values nested 6 and 20 objects deep): packing and unpacking do not depend on the depth
	// (far below protobuf-go's limit), through both unpack paths
	{
		deep := 0
		var srcs []proto.Message
		var lbls []string
		for _, md := range types {
			fs := md.Fields()
			for i := 0; i < fs.Len(); i++ {
				fd := fs.Get(i)
				if fd.Message() == nil || fd.Message().FullName() != md.FullName() || fd.IsList() || fd.IsMap() || fd.ContainingOneof() != nil {
					continue
				}
				for _, levels := range []int{12, 40, 200} {
					top := enum.NewDyn(md)
					cur := protoreflect.Message(top)
					for l := 1; l < levels; l++ {
						cur = cur.Mutable(fd).Message()
					}
					if sf := firstScalar(md); sf != nil {
						cur.Set(sf, sampleScalar(sf))
					}
					srcs = append(srcs, enum.BuildGo(top))
					lbls = append(lbls, fmt.Sprintf("%s nested %d levels along %s", md.FullName(), levels, fd.Name()))
				}
				break
			}
		}
		for _, objects := range []int{6, 20} {
			v, _ := structpb.NewStruct(map[string]interface{}{"leaf": 1.0})
			for o := 1; o < objects; o++ {
				v = &structpb.Struct{Fields: map[string]*structpb.Value{"o": structpb.NewStructValue(v)}}
			}
			srcs = append(srcs, v)
			lbls = append(lbls, fmt.Sprintf("google.protobuf.Struct nested %d objects", objects))
		}
		for i, src := range srcs {
			tname := string(src.ProtoReflect().Descriptor().FullName())
			c := c16case{Kind: "pack-deep", Type: tname, Src: lbls[i]}
			h.Eval(true, hz.Hash("C16deep", lbls[i]))
			deep++
			a, err := anyutil.New(src)
			if err != nil || a.TypeUrl != "/"+tname {
				h.Violate("C16/pack/deep/failed", fmt.Sprintf("anyutil.New(%s): err=%v", lbls[i], err), c)
				continue
			}
			for rn, tr := range map[string]protoregistry.MessageTypeResolver{"nil(global)": nil, "empty": &protoregistry.Types{}} {
				var m proto.Message
				var uerr error
				p := hz.Catch(func() { m, uerr = anyutil.Unpack(a, nil, tr) })
				if p != nil || uerr != nil || m == nil || !proto.Equal(src, m) {
					cc := c
					cc.TypeRes = rn
					h.Violate("C16/unpack/deep", fmt.Sprintf("Unpack(Pack(%s)) with type resolver %s: panic=%v err=%v equal=%v", lbls[i], rn, p, uerr, m != nil && proto.Equal(src, m)), cc)
				}
			}
		}
		h.Rep.Bounds["deeply_nested_packs"] = deep
	}
	// (1d) messages carrying populated extension fields (descriptor options with cosmos_proto's custom options): both
	// unpack paths return a message equal to the source, with the extension fields as fields (not as unknown bytes),
	// whatever type resolver is handed in
	{
		fo := &descriptorpb.FieldOptions{Deprecated: proto.Bool(true)}
		proto.SetExtension(fo, cosmos_proto.E_Scalar, "cosmos.AddressString")
		proto.SetExtension(fo, cosmos_proto.E_AcceptsInterface, "verif.Iface")
		mo := &descriptorpb.MessageOptions{Deprecated: proto.Bool(true)}
		proto.SetExtension(mo, cosmos_proto.E_ImplementsInterface, []string{"a.B", "c.D"})
		for _, src := range []proto.Message{fo, mo} {
			tname := string(src.ProtoReflect().Descriptor().FullName())
			a, err := anyutil.New(src)
			c := c16case{Kind: "pack-extensions", Type: tname}
			if err != nil || a.TypeUrl != "/"+tname {
				h.Violate("C16/pack/extensions/failed", fmt.Sprintf("anyutil.New(%s with extension fields): err=%v any=%v", tname, err, a), c)
				continue
			}
			for rn, tr := range typeResolversForExt() {
				for fn, fr := range map[string]protodesc.Resolver{"nil(global)": nil, "global": protoregistry.GlobalFiles} {
					var m proto.Message
					var uerr error
					h.Eval(true, hz.Hash("C16ext", tname, rn, fn))
					p := hz.Catch(func() { m, uerr = anyutil.Unpack(a, fr, tr) })
					cc := c
					cc.TypeRes, cc.FileRes = rn, fn
					if p != nil || uerr != nil || m == nil {
						h.Violate("C16/unpack/extensions/failed", fmt.Sprintf("Unpack(Pack(%s with extension fields)) with type resolver %s, file resolver %s: panic=%v err=%v", tname, rn, fn, p, uerr), cc)
						continue
					}
					if !proto.Equal(src, m) || !proto.Equal(m, src) || len(m.ProtoReflect().GetUnknown()) != 0 {
						h.Violate("C16/unpack/extensions/value", fmt.Sprintf("Unpack(Pack(%s)) with type resolver %s, file resolver %s is not equal to the packed message: got %v (unknown bytes %x), want %v", tname, rn, fn, m, m.ProtoReflect().GetUnknown(), src), cc)
					}
				}
			}
		}
	}
	// (2) every Any x resolver combination returns a message or an error, never panics
	valid, _ := proto.Marshal(&anypb.Any{TypeUrl: "/x", Value: []byte{1}})
	bEnc := []byte{0x0a, 0x01, 0x78} // testpb.B{x:"x"} and many others: field 1 bytes "x"
	urls := []string{"/B", "type.googleapis.com/B", "B", "", "/", "//", "/A", "/Enumeration", "/cosmos_proto.ScalarType", "/testpb.Query", "/Query", "/Query.Counter", "/A.INT32", "/1.proto",
		"/does.not.Exist", "/in valid name!", "/google.protobuf.Timestamp", "/google.protobuf.Any", "/verif.dynonly.DynOnly", "/verif.dynonly.DynEnum", "/verif.dynonly.DynSvc", "/verif.dynonly.DynSvc.Do", "/verif.dynonly.DynOnly.a", "/.B", "/B/", "\x00", strings.Repeat("/B", 50), "/mx.Sing", "/mx.Color", "/goproto.proto.test3.TestAllTypes.NestedEnum"}
	values := map[string][]byte{"valid-B": bEnc, "truncated": {0x0a, 0x05, 0x78}, "garbage": {0xff, 0xff, 0xff}, "other-type": valid, "nil": nil, "empty": {}, "end-group": {0x0c}, "deep": bytes.Repeat([]byte{0x1a, 0x02}, 3)}
	typeRes := map[string]protoregistry.MessageTypeResolver{"nil(global)": nil, "empty": &protoregistry.Types{}, "error": errResolver{}}
	withB := &protoregistry.Types{}
	if mt, err := protoregistry.GlobalTypes.FindMessageByName("B"); err == nil {
		withB.RegisterMessage(mt)
	}
	typeRes["only-B"] = withB
	fileRes := map[string]protodesc.Resolver{"nil(global)": nil, "empty": &protoregistry.Files{}, "dyn-only": dynFiles, "error": errFiles{}}
	var combos int64
	for _, u := range urls {
		for vn, v := range values {
			for tn, tr := range typeRes {
				for fn, fr := range fileRes {
					combos++
					a := &anypb.Any{TypeUrl: u, Value: v}
					var m proto.Message
					var err error
					c := c16case{Kind: "unpack-matrix", URL: u, ValueHex: fmt.Sprintf("%x", v), TypeRes: tn, FileRes: fn}
					h.Eval(true, hz.Hash("C16m", u, vn, tn, fn))
					if p := hz.Catch(func() { m, err = anyutil.Unpack(a, fr, tr) }); p != nil {
						cls := "other"
						switch {
						case strings.Contains(strings.ToLower(u), "enum") || strings.Contains(u, "ScalarType") || strings.Contains(u, "Color"):
							cls = "url-names-an-enum"
						case strings.Contains(u, "Query") || strings.Contains(u, "Svc"):
							cls = "url-names-a-service-or-method"
						case strings.Contains(u, "INT32") || strings.HasSuffix(u, ".a"):
							cls = "url-names-a-field"
						}
						h.ViolateMin(fmt.Sprintf("C16/unpack-panic/%s/types=%s/files=%s", cls, tn, fn), fmt.Sprintf("Unpack(Any{TypeUrl:%q, Value:%x}, files=%s, types=%s) panicked: %v", u, v, fn, tn, p), c, len(u)+len(v))
						continue
					}
					if (m == nil) == (err == nil) {
						h.ViolateMin("C16/unpack-contract", fmt.Sprintf("Unpack(Any{TypeUrl:%q, Value:%x}, files=%s, types=%s) returned message=%v and err=%v (exactly one must be set)", u, v, fn, tn, m, err), c, len(u)+len(v))
					}
				}
			}
		}
	}
	h.Rep.Bounds["unpack_matrix"] = fmt.Sprintf("%d type URLs x %d values x %d type resolvers x %d file resolvers = %d", len(urls), len(values), len(typeRes), len(fileRes), combos)
	h.Sample(map[string]interface{}{"kind": "unpack-matrix", "type_url": "/Enumeration", "value_hex": "0a0178", "type_resolver": "empty", "file_resolver": "nil(global)"})
	// (3) a failed pack leaves the destination untouched
	badUTF8 := dynamicpb.NewMessage(dynMD)
	badUTF8.Set(dynMD.Fields().ByName("s"), protoreflect.ValueOfString("\xff\xfe"))
	srcs := map[string]proto.Message{"nil-interface": nil, "invalid-utf8-dynamic": badUTF8}
	for sn, src := range srcs {
		for _, on := range []string{"default", "Deterministic"} {
			dst := &anypb.Any{TypeUrl: "/sentinel.Type", Value: []byte{9, 9, 9}}
			var err error
			c := c16case{Kind: "failed-pack", Src: sn, Opts: on}
			h.Eval(true, hz.Hash("C16f", sn, on))
			if p := hz.Catch(func() {
				err = anyutil.MarshalFrom(dst, src, proto.MarshalOptions{Deterministic: on == "Deterministic"})
			}); p != nil {
				h.Violate("C16/failed-pack/panic/"+sn, fmt.Sprintf("MarshalFrom(dst, %s) panicked: %v", sn, p), c)
				continue
			}
			if err == nil {
				h.Violate("C16/failed-pack/no-error/"+sn, fmt.Sprintf("MarshalFrom(dst, %s) reported no error", sn), c)
				continue
			}
			if dst.TypeUrl != "/sentinel.Type" || !bytes.Equal(dst.Value, []byte{9, 9, 9}) {
				h.Violate("C16/failed-pack/destination-modified/"+sn, fmt.Sprintf("failed MarshalFrom(dst, %s) modified dst: %q %x", sn, dst.TypeUrl, dst.Value), c)
			}
			if a, e := anyutil.New(src); a != nil || e == nil {
				h.Violate("C16/failed-pack/new/"+sn, fmt.Sprintf("anyutil.New(%s) = %v, %v; want nil, error", sn, a, e), c)
			}
		}
	}
	// (5) histories: the descriptor used by the file-registry path must be the one of the resolver given to
	// THIS call, whatever earlier calls resolved the same name to
	{
		mkFiles := func(kind descriptorpb.FieldDescriptorProto_Type) (*protoregistry.Files, protoreflect.MessageDescriptor) {
			fdp := &descriptorpb.FileDescriptorProto{Name: proto.String("verif/twin.proto"), Package: proto.String("verif.twin"), Syntax: proto.String("proto3"),
				MessageType: []*descriptorpb.DescriptorProto{{Name: proto.String("M"), Field: []*descriptorpb.FieldDescriptorProto{
					{Name: proto.String("n"), Number: proto.Int32(1), Type: kind.Enum(), Label: descriptorpb.FieldDescriptorProto_LABEL_OPTIONAL.Enum()}}}}}
			fd, err := protodesc.NewFile(fdp, nil)
			if err != nil {
				panic(err)
			}
			fs := &protoregistry.Files{}
			fs.RegisterFile(fd)
			return fs, fd.Messages().Get(0)
		}
		type reg struct {
			name  string
			files *protoregistry.Files
			md    protoreflect.MessageDescriptor
		}
		var regs []reg
		for _, k := range []struct {
			n string
			t descriptorpb.FieldDescriptorProto_Type
		}{{"int32", descriptorpb.FieldDescriptorProto_TYPE_INT32}, {"sint32", descriptorpb.FieldDescriptorProto_TYPE_SINT32}, {"string", descriptorpb.FieldDescriptorProto_TYPE_STRING}} {
			fs, md := mkFiles(k.t)
			regs = append(regs, reg{k.n, fs, md})
		}
		payloads := map[string][]byte{"varint 5": {0x08, 0x05}, "bytes": {0x0a, 0x01, 0x78}}
		// every history of length <= 3 over the three registries
		var hist func(prefix []int)
		hist = func(prefix []int) {
			if len(prefix) > 0 {
				for pn, pl := range payloads {
					var last proto.Message
					var lerr error
					pv := hz.Catch(func() {
						for _, ri := range prefix {
							last, lerr = anyutil.Unpack(&anypb.Any{TypeUrl: "/verif.twin.M", Value: pl}, regs[ri].files, &protoregistry.Types{})
						}
					})
					r := regs[prefix[len(prefix)-1]]
					var names []string
					for _, ri := range prefix {
						names = append(names, regs[ri].name)
					}
					c := c16case{Kind: "unpack-history", URL: "/verif.twin.M", ValueHex: fmt.Sprintf("%x", pl), FileRes: strings.Join(names, " then ")}
					h.Eval(true, hz.Hash("C16h", pn, fmt.Sprint(prefix)))
					want := dynamicpb.NewMessage(r.md)
					werr := proto.Unmarshal(pl, want)
					if pv != nil {
						h.ViolateMin("C16/unpack-history/panic", fmt.Sprintf("Unpack history %v panicked: %v", names, pv), c, len(prefix))
						continue
					}
					if (lerr == nil) != (werr == nil) {
						h.ViolateMin("C16/unpack-history/error", fmt.Sprintf("Unpack of payload %s through file registries %v: err=%v, decoding with the last registry's descriptor gives err=%v", pn, names, lerr, werr), c, len(prefix))
						continue
					}
					if lerr == nil && (last.ProtoReflect().Descriptor() != r.md || enum.Canon(last.ProtoReflect(), false) != enum.Canon(want, false)) {
						h.ViolateMin("C16/unpack-history/stale-descriptor", fmt.Sprintf("Unpack through file registries %v (same full name, different schemas): the last call returned %s decoded with a descriptor that is not the one its own resolver holds (want %s)", names, enum.Canon(last.ProtoReflect(), false), enum.Canon(want, false)), c, len(prefix))
					}
				}
			}
			if len(prefix) < 3 {
				for i := range regs {
					hist(append(append([]int(nil), prefix...), i))
				}
			}
		}
		hist(nil)
	}
	// (4) the source may be, or embed, the destination (its Value having spare capacity)
	for _, spare := range []int{0, 1, 64} {
		for _, on := range []string{"default", "Deterministic"} {
			val := make([]byte, 9, 9+spare)
			copy(val, []byte{0x0a, 0x07, 'p', 'a', 'y', 'l', 'o', 'a', 'd'})
			dst := &anypb.Any{TypeUrl: "/B", Value: val}
			want, _ := proto.MarshalOptions{Deterministic: true}.Marshal(proto.Clone(dst))
			c := c16case{Kind: "self-pack", Opts: on, Src: fmt.Sprintf("dst itself, spare capacity %d", spare)}
			h.Eval(true, hz.Hash("C16s", on, fmt.Sprint(spare)))
			var err error
			if p := hz.Catch(func() {
				err = anyutil.MarshalFrom(dst, dst, proto.MarshalOptions{Deterministic: on == "Deterministic"})
			}); p != nil || err != nil {
				h.Violate("C16/self-pack/failed", fmt.Sprintf("MarshalFrom(dst, dst) failed: panic=%v err=%v", p, err), c)
				continue
			}
			if dst.TypeUrl != "/google.protobuf.Any" || !bytes.Equal(dst.Value, want) {
				h.Violate("C16/self-pack/value", fmt.Sprintf("MarshalFrom(dst, dst) with spare capacity %d: Value %x is not the encoding %x of the message that was packed", spare, dst.Value, want), c)
			}
			// a message embedding the destination
			val2 := make([]byte, 3, 3+spare)
			copy(val2, []byte{0x0a, 0x01, 'x'})
			inner := &anypb.Any{TypeUrl: "/B", Value: val2}
			outerD := dynamicpb.NewMessage(dynMD)
			_ = outerD
			lst := &anypb.Any{TypeUrl: "/wrap", Value: nil}
			wantInner, _ := proto.MarshalOptions{Deterministic: true}.Marshal(proto.Clone(inner))
			_ = lst
			if p := hz.Catch(func() {
				err = anyutil.MarshalFrom(inner, proto.Clone(inner), proto.MarshalOptions{Deterministic: true})
			}); p != nil || err != nil || !bytes.Equal(inner.Value, wantInner) {
				h.Violate("C16/repack/value", fmt.Sprintf("MarshalFrom into a destination holding a value (spare %d): panic=%v err=%v value=%x want %x", spare, p, err, inner.Value, wantInner), c)
			}
		}
	}
	h.Rep.Rule = "(1) every <=1-slot value (reduced alphabet, nesting 1) of every pulsar type, 7 well-known/standard types and a descriptor-only type x {default, Deterministic, AllowPartial}: pack, type URL, value bytes, unpack through both paths, agreement; (2) the full product type URLs x value bytes x type resolvers x file resolvers: message xor error, no panic; (3) failed packs leave the destination untouched; (4) the destination itself as the source, with and without spare capacity in its Value; (5) every history of <=3 Unpack calls over three file registries that declare the same full name with different schemas; non-trivial = non-empty encoding (1), all (2)(3); distinct = hash of the case"
	h.Rep.Assumptions = []string{"proto.Equal is replaced by canonical-form equality (bit-exact floats)", "registered types = protoregistry.GlobalTypes of this binary (checked-in packages, freshly generated mx, well-known types)"}
}

func replayC16(h *hz.H) {
	// cases are cheap and the space small: a replay re-runs the whole space and reports whatever it finds
	runC16(h)
	h.Finish()
}
