package main

import "github.com/cosmos/cosmos-proto/internal/zzverif/hz"

func runC16(h *hz.H)    { h.InternalError("C16 not built yet") }
func replayC16(h *hz.H) { h.InternalError("C16 not built yet") }
