package main

import (
	"bytes"
	"encoding/hex"
	"fmt"
	"math/bits"
	"strings"
	"sync/atomic"

	"github.com/cosmos/cosmos-proto/internal/zzverif/hz"
	"github.com/cosmos/cosmos-proto/runtime"
	"google.golang.org/protobuf/encoding/protowire"
)

type c15Case struct {
	Kind   string `json:"kind"` // sov | soz | encode | skip
	X      uint64 `json:"x,omitempty"`
	Offset int    `json:"offset,omitempty"`
	BufLen int    `json:"buflen,omitempty"`
	Bytes  string `json:"bytes_hex,omitempty"`
	// Skip is a function of its argument: calls made before (hex) must not matter
	History []string `json:"earlier_skip_calls_hex,omitempty"`
	// position of the judged call in the deterministic history pass: whatever the code under test keeps between calls was
	// left by ALL calls the pass made before it, so a replay re-executes the pass up to this position in a fresh process
	PassPos int64 `json:"history_pass_position,omitempty"`
}

var (
	passPos     int64      // judged calls made so far by the history pass (single goroutine)
	judgeOnlyAt int64 = -1 // replay: make every call of the pass, judge only this one
)

// bitClass is the violation-key granularity for integer inputs: bit length of x.
func bitClass(x uint64) int { return bits.Len64(x) }

func checkSov(h *hz.H, x uint64) bool {
	if runtime.Sov(x) != protowire.SizeVarint(x) {
		h.Violate(fmt.Sprintf("C15/sov/bitlen=%d", bitClass(x)), fmt.Sprintf("Sov(%d)=%d, protowire.SizeVarint=%d", x, runtime.Sov(x), protowire.SizeVarint(x)), c15Case{Kind: "sov", X: x})
		return false
	}
	return true
}

func checkSoz(h *hz.H, x uint64) bool {
	want := protowire.SizeVarint(protowire.EncodeZigZag(int64(x)))
	if got := runtime.Soz(x); got != want {
		neg := int64(x) < 0
		bl := bitClass(x)
		if neg {
			bl = bitClass(^x)
		}
		h.Violate(fmt.Sprintf("C15/soz/neg=%v/bitlen=%d", neg, bl), fmt.Sprintf("Soz(%d)=%d, SizeVarint(EncodeZigZag)=%d", int64(x), got, want), c15Case{Kind: "soz", X: x})
		return false
	}
	return true
}

func checkEncode(h *hz.H, v uint64, off, buflen int) bool {
	buf := make([]byte, buflen)
	for i := range buf {
		buf[i] = byte(0xA5 ^ i)
	}
	want := protowire.AppendVarint(nil, v)
	c := c15Case{Kind: "encode", X: v, Offset: off, BufLen: buflen}
	var base int
	p := hz.Catch(func() { base = runtime.EncodeVarint(buf, off, v) })
	fits := off-len(want) >= 0 && off <= buflen
	key := fmt.Sprintf("C15/encode/len=%d", len(want))
	if !fits {
		// outside the property ("no panic when it fits"); whatever happened, nothing is judged
		return true
	}
	if p != nil {
		h.Violate(key+"/panic", fmt.Sprintf("EncodeVarint(buf[%d], %d, %d) panicked: %v", buflen, off, v, p), c)
		return false
	}
	if base != off-len(want) {
		h.Violate(key+"/base", fmt.Sprintf("EncodeVarint(_, %d, %d) returned %d, want %d", off, v, base, off-len(want)), c)
		return false
	}
	if !bytes.Equal(buf[base:off], want) {
		h.Violate(key+"/bytes", fmt.Sprintf("EncodeVarint(_, %d, %d) wrote %x, want %x", off, v, buf[base:off], want), c)
		return false
	}
	for i := range buf {
		if (i < base || i >= off) && buf[i] != byte(0xA5^i) {
			h.Violate(key+"/stray", fmt.Sprintf("EncodeVarint(_, %d, %d) modified byte %d outside [%d,%d)", off, v, i, base, off), c)
			return false
		}
	}
	return true
}

// checkSkip returns (ok, wellFormed).
func checkSkip(h *hz.H, b []byte) (bool, bool) { return checkSkipAfter(h, b, nil) }

// checkSkipAfter judges Skip(b) after the given earlier calls have been made (their results are not judged here).
func checkSkipAfter(h *hz.H, b []byte, history [][]byte) (bool, bool) {
	var n int
	var err error
	c := c15Case{Kind: "skip", Bytes: hex.EncodeToString(b)}
	for _, e := range history {
		c.History = append(c.History, hex.EncodeToString(e))
		e := append([]byte(nil), e...)
		hz.Catch(func() { runtime.Skip(e) })
	}
	if len(history) > 0 {
		passPos++
		c.PassPos = passPos
		if judgeOnlyAt >= 0 && passPos != judgeOnlyAt {
			in := append([]byte(nil), b...)
			hz.Catch(func() { runtime.Skip(in) })
			return true, false
		}
	}
	in := append([]byte(nil), b...)
	p := hz.Catch(func() { n, err = runtime.Skip(in) })
	wt := -1
	if len(b) > 0 {
		wt = int(b[0] & 7)
	}
	key := fmt.Sprintf("C15/skip/wt=%d", wt)
	if len(history) > 0 {
		key = fmt.Sprintf("C15/skip-after-%d-earlier-calls/wt=%d", len(history), wt)
	}
	if p != nil {
		h.Violate(key+"/panic", fmt.Sprintf("Skip(%x) panicked: %v", b, p), c)
		return false, false
	}
	if !bytes.Equal(in, b) {
		h.Violate(key+"/mutated-input", fmt.Sprintf("Skip(%x) modified its input", b), c)
		return false, false
	}
	if err == nil && n <= 0 {
		h.Violate(key+"/no-progress", fmt.Sprintf("Skip(%x) = (%d, nil): no progress and no error", b, n), c)
		return false, false
	}
	_, _, want := protowire.ConsumeField(b)
	if want > 0 {
		if err != nil || n != want {
			h.Violate(key+"/length", fmt.Sprintf("Skip(%x) = (%d, %v)%s; protowire.ConsumeField accepts a record of %d bytes", b, n, err, afterText(history, c.PassPos), want), c)
			return false, true
		}
		return true, true
	}
	return true, false
}

func afterText(history [][]byte, pos int64) string {
	if len(history) == 0 {
		return ""
	}
	var hs []string
	for _, e := range history {
		hs = append(hs, hex.EncodeToString(e))
	}
	return fmt.Sprintf(" as call group %d of the history pass (fresh process, one goroutine; every earlier group of the pass was executed before it), directly after Skip(%s)", pos, strings.Join(hs, "), Skip("))
}

// runSkipHistories: Skip is a function of its argument. Every ordered pair (and every triple over a smaller set) of calls
// over a set of short inputs - well-formed records of every wire type, groups, and inputs that fail at every point inside
// an open group - in one goroutine of a process that has made no other Skip call: the last call's result is judged.
func runSkipHistories(h *hz.H) {
	g := func(num protowire.Number, body ...byte) []byte {
		return append(append(tagBytesC15(num, protowire.StartGroupType), body...), tagBytesC15(num, protowire.EndGroupType)...)
	}
	var set [][]byte
	set = append(set, []byte{0x08, 0x01}, []byte{0x08, 0xac, 0x02}, []byte{0x0d, 1, 2, 3, 4}, []byte{0x09, 1, 2, 3, 4, 5, 6, 7, 8}, []byte{0x0a, 0x00}, []byte{0x0a, 0x02, 0x61, 0x62},
		g(1), g(3, 0x08, 0x01), g(1, g(2, 0x0a, 0x01, 0x78)...), g(5, g(6, g(7)...)...), append(g(3, 0x08, 0x01), 0x08, 0x01, 0x2c),
		[]byte{0x12, 0x03, 0x0b, 0x08, 0x01}) // a length-delimited record whose payload looks like an unfinished group
	// failing inputs: every proper prefix of the group records, wrong end-group numbers, a bare end-group, bad varints inside a group
	for _, w := range [][]byte{g(5, g(6, g(7)...)...), g(3, 0x08, 0x01), g(1, g(2, 0x0a, 0x01, 0x78)...)} {
		for cut := 1; cut < len(w); cut++ {
			set = append(set, w[:cut])
		}
	}
	set = append(set, []byte{0x2b, 0x08, 0x01}, []byte{0x0b, 0x14}, []byte{0x0c}, []byte{0x0b, 0x0a, 0xff, 0xff, 0xff, 0xff, 0xff, 0xff, 0xff, 0xff, 0xff, 0x01}, []byte{0x0b, 0x0f}, []byte{0x0b, 0x00}, []byte{})
	n := int64(0)
	for _, p := range set {
		for _, x := range set {
			checkSkipAfter(h, x, [][]byte{p})
			n++
		}
	}
	small := set
	if len(small) > 24 && !h.Thorough() {
		small = append(append([][]byte{}, set[:12]...), set[len(set)-12:]...)
	}
	for _, p := range small {
		for _, q := range small {
			for _, x := range small {
				checkSkipAfter(h, x, [][]byte{p, q})
				n++
			}
		}
	}
	h.EvalN(n)
	h.DistinctN(n)
	h.Rep.Bounds["skip_call_histories"] = n
	h.Rep.Bounds["skip_history_input_set"] = len(set)
}

func tagBytesC15(n protowire.Number, t protowire.Type) []byte { return protowire.AppendTag(nil, n, t) }

func boundaries() []uint64 {
	var out []uint64
	seen := map[uint64]bool{}
	add := func(x uint64) {
		if !seen[x] {
			seen[x] = true
			out = append(out, x)
		}
	}
	for k := 0; k <= 64; k++ {
		var p uint64
		if k < 64 {
			p = 1 << uint(k)
		}
		for _, x := range []uint64{p - 1, p, p + 1} {
			add(x)
			add(uint64(-int64(x)))
			add(^x)
		}
	}
	return out
}

func skipAlphabet() []byte {
	var a []byte
	for _, num := range []int{1, 2} {
		for wt := 0; wt < 8; wt++ {
			a = append(a, byte(num<<3|wt))
		}
	}
	a = append(a, 0x00, 0x01, 0x02, 0x03, 0x04, 0x05, 0x7f, 0x80, 0x81, 0xff)
	// dedupe
	seen := map[byte]bool{}
	var out []byte
	for _, b := range a {
		if !seen[b] {
			seen[b] = true
			out = append(out, b)
		}
	}
	return out
}

func runC15(h *hz.H) {
	runSkipHistories(h) // first: nothing has called Skip in this process yet
	sweep := uint64(1) << 24
	if h.Thorough() {
		sweep = 1 << 32
	}
	h.Rep.Bounds["sov_soz_dense_sweep"] = fmt.Sprintf("every x in [0, 2^%d)", bits.Len64(sweep)-1)
	// 1. dense sweep
	h.ParChunks(sweep, 1<<20, "sov/soz sweep", func(lo, hi uint64) {
		for x := lo; x < hi; x++ {
			if runtime.Sov(x) != protowire.SizeVarint(x) {
				checkSov(h, x)
			}
			if runtime.Soz(x) != protowire.SizeVarint(protowire.EncodeZigZag(int64(x))) {
				checkSoz(h, x)
			}
			// the same 32-bit pattern sign-extended, as the generated code passes int32 values
			y := uint64(int64(int32(uint32(x))))
			if y != x {
				if runtime.Sov(y) != protowire.SizeVarint(y) {
					checkSov(h, y)
				}
				if runtime.Soz(y) != protowire.SizeVarint(protowire.EncodeZigZag(int64(y))) {
					checkSoz(h, y)
				}
			}
		}
		h.EvalN(int64(hi-lo) * 2)
		h.DistinctN(int64(hi - lo))
	})
	// 2. boundaries
	bs := boundaries()
	for _, x := range bs {
		checkSov(h, x)
		checkSoz(h, x)
		h.Eval(true, hz.Hash("b", fmt.Sprint(x)))
	}
	h.Rep.Bounds["boundary_values"] = len(bs)
	h.Sample(map[string]interface{}{"kind": "sov/soz", "x": bs[len(bs)/2], "sov": runtime.Sov(bs[len(bs)/2])})
	// 3. EncodeVarint: boundaries x every offset of a 24-byte buffer (+ exact-size buffers)
	const buflen = 24
	var encN int64
	for _, v := range bs {
		for off := 0; off <= buflen; off++ {
			checkEncode(h, v, off, buflen)
			encN++
			h.Eval(off >= protowire.SizeVarint(v), hz.Hash("e", fmt.Sprint(v), fmt.Sprint(off)))
		}
		n := protowire.SizeVarint(v)
		checkEncode(h, v, n, n)
		h.Eval(true, hz.Hash("e=", fmt.Sprint(v)))
	}
	h.Rep.Bounds["encode_cases"] = encN
	h.Sample(map[string]interface{}{"kind": "encode", "v": uint64(300), "offset": 5, "buflen": buflen})
	// 4. Skip: every byte string of length <= 3 over 256 values
	var wellFormed atomic.Int64
	full := uint64(1 + 256 + 256*256 + 256*256*256)
	h.ParChunks(full, 1<<16, "skip full<=3", func(lo, hi uint64) {
		var buf [3]byte
		for i := lo; i < hi; i++ {
			var b []byte
			switch {
			case i == 0:
				b = buf[:0]
			case i < 1+256:
				buf[0] = byte(i - 1)
				b = buf[:1]
			case i < 1+256+65536:
				j := i - 257
				buf[0], buf[1] = byte(j>>8), byte(j)
				b = buf[:2]
			default:
				j := i - 257 - 65536
				buf[0], buf[1], buf[2] = byte(j>>16), byte(j>>8), byte(j)
				b = buf[:3]
			}
			if _, wf := checkSkip(h, b); wf {
				wellFormed.Add(1)
			}
		}
		h.EvalN(int64(hi - lo))
		h.DistinctN(int64(hi - lo))
	})
	// 5. Skip: length <= L over the reduced alphabet
	alpha := skipAlphabet()
	L := 5
	if h.Thorough() {
		L = 6
	}
	h.Rep.Bounds["skip_full_alphabet_maxlen"] = 3
	h.Rep.Bounds["skip_reduced_alphabet"] = fmt.Sprintf("%x", alpha)
	h.Rep.Bounds["skip_reduced_maxlen"] = L
	for l := 4; l <= L; l++ {
		total := uint64(1)
		for i := 0; i < l; i++ {
			total *= uint64(len(alpha))
		}
		l := l
		h.ParChunks(total, 1<<16, fmt.Sprintf("skip reduced len=%d", l), func(lo, hi uint64) {
			buf := make([]byte, l)
			for i := lo; i < hi; i++ {
				j := i
				for p := l - 1; p >= 0; p-- {
					buf[p] = alpha[j%uint64(len(alpha))]
					j /= uint64(len(alpha))
				}
				if _, wf := checkSkip(h, buf); wf {
					wellFormed.Add(1)
				}
			}
			h.EvalN(int64(hi - lo))
			h.DistinctN(int64(hi - lo))
		})
	}
	// 6. Skip: hand-picked longer well-formed records (each wire type, groups nested, padded varints)
	var recs [][]byte
	recs = append(recs, protowire.AppendVarint(protowire.AppendTag(nil, 1, protowire.VarintType), 1<<63))
	recs = append(recs, protowire.AppendFixed64(protowire.AppendTag(nil, 2, protowire.Fixed64Type), 7))
	recs = append(recs, protowire.AppendFixed32(protowire.AppendTag(nil, 536870911, protowire.Fixed32Type), 7))
	recs = append(recs, protowire.AppendBytes(protowire.AppendTag(nil, 3, protowire.BytesType), bytes.Repeat([]byte{1}, 200)))
	g := protowire.AppendTag(nil, 4, protowire.StartGroupType)
	g = append(g, recs[0]...)
	g = protowire.AppendTag(g, 5, protowire.StartGroupType)
	g = append(g, recs[3]...)
	g = protowire.AppendTag(g, 5, protowire.EndGroupType)
	g = protowire.AppendTag(g, 4, protowire.EndGroupType)
	recs = append(recs, g)
	recs = append(recs, []byte{0x88, 0x80, 0x80, 0x00, 0x81, 0x80, 0x00}) // padded tag (field 1 varint) and padded value
	// counts and depths around protowire's nesting limit (10000): many sibling groups at depth 2 are NOT nesting;
	// chains of nested groups are (compared with protowire's verdict whatever it is)
	many := func(n int) []byte {
		b := protowire.AppendTag(nil, 4, protowire.StartGroupType)
		for i := 0; i < n; i++ {
			b = protowire.AppendTag(b, 5, protowire.StartGroupType)
			b = protowire.AppendTag(b, 5, protowire.EndGroupType)
		}
		return protowire.AppendTag(b, 4, protowire.EndGroupType)
	}
	chain := func(n int) []byte {
		var b []byte
		for i := 0; i < n; i++ {
			b = protowire.AppendTag(b, 6, protowire.StartGroupType)
		}
		for i := 0; i < n; i++ {
			b = protowire.AppendTag(b, 6, protowire.EndGroupType)
		}
		return b
	}
	for _, n := range []int{9999, 10000, 10001, 10002, 25000} {
		for _, r := range [][]byte{many(n), chain(n)} {
			if _, wf := checkSkip(h, r); wf {
				wellFormed.Add(1)
			}
			h.Eval(true, hz.HashBytes([]byte("skipbig"), r))
		}
	}
	for _, r := range recs {
		for cut := 0; cut <= len(r); cut++ {
			if _, wf := checkSkip(h, r[:cut]); wf {
				wellFormed.Add(1)
			}
			h.Eval(true, hz.HashBytes([]byte("skiprec"), r[:cut]))
		}
		// trailing garbage must not change the answer
		if _, wf := checkSkip(h, append(append([]byte{}, r...), 0xff, 0xff)); wf {
			wellFormed.Add(1)
		}
		h.Eval(true, hz.HashBytes([]byte("skiprec+"), r))
	}
	// 7. Skip: every sequence of wire *tokens* (tags of every wire type, adversarial varints, filler
	// bytes) up to a length: reaches inputs such as "group start, length-delimited tag, huge length"
	// that are longer than the byte-level bound.
	var toks [][]byte
	for _, num := range []protowire.Number{1, 2} {
		for wt := 0; wt < 8; wt++ {
			toks = append(toks, protowire.AppendVarint(nil, uint64(num)<<3|uint64(wt)))
		}
	}
	for _, v := range []uint64{0, 1, 2, 4, 8, 127, 128, 1<<31 - 1, 1 << 31, 1<<32 - 1, 1 << 32, 1<<63 - 1, 1<<63 - 8, 1 << 63, 1<<64 - 1} {
		toks = append(toks, protowire.AppendVarint(nil, v))
	}
	toks = append(toks, []byte{0xff, 0xff, 0xff, 0xff, 0xff, 0xff, 0xff, 0xff, 0xff, 0x7f}, []byte{0x80, 0x80, 0x80, 0x80, 0x80, 0x80, 0x80, 0x80, 0x80, 0x80, 0x01},
		[]byte{0xff, 0xff, 0xff, 0xff, 0xff, 0xff, 0xff, 0xff, 0x7f}, []byte{0xaa, 0xbb, 0xcc, 0xdd}, []byte{0x11, 0x22, 0x33, 0x44, 0x55, 0x66, 0x77, 0x88})
	TL := 4
	if h.Thorough() {
		TL = 5
	}
	h.Rep.Bounds["skip_token_alphabet"] = len(toks)
	h.Rep.Bounds["skip_token_sequences_maxlen"] = TL
	for l := 1; l <= TL; l++ {
		total := uint64(1)
		for i := 0; i < l; i++ {
			total *= uint64(len(toks))
		}
		l := l
		h.ParChunks(total, 1<<14, fmt.Sprintf("skip token sequences len=%d", l), func(lo, hi uint64) {
			var buf []byte
			for i := lo; i < hi; i++ {
				buf = buf[:0]
				j := i
				for p := 0; p < l; p++ {
					buf = append(buf, toks[j%uint64(len(toks))]...)
					j /= uint64(len(toks))
				}
				if _, wf := checkSkip(h, buf); wf {
					wellFormed.Add(1)
				}
			}
			h.EvalN(int64(hi - lo))
			h.DistinctN(int64(hi - lo))
		})
	}
	// 8. Skip: well-formed groups whose body is every sequence of <= 3 member records (varints, fixed
	// widths, length-delimited members of lengths 0,1,2,3,4,7,8,127,128, empty and non-empty inner groups),
	// at nesting depth 1 and 2, alone and followed by trailing bytes.
	var members [][]byte
	members = append(members, protowire.AppendVarint(tagBytesC15(1, protowire.VarintType), 1), protowire.AppendVarint(tagBytesC15(2, protowire.VarintType), 300),
		protowire.AppendFixed32(tagBytesC15(1, protowire.Fixed32Type), 7), protowire.AppendFixed64(tagBytesC15(2, protowire.Fixed64Type), 7))
	for _, n := range []int{0, 1, 2, 3, 4, 7, 8, 127, 128} {
		members = append(members, protowire.AppendBytes(tagBytesC15(protowire.Number(2+n%2), protowire.BytesType), bytes.Repeat([]byte{0x78}, n)))
	}
	members = append(members, append(tagBytesC15(3, protowire.StartGroupType), tagBytesC15(3, protowire.EndGroupType)...))
	inner := tagBytesC15(4, protowire.StartGroupType)
	inner = protowire.AppendBytes(append(inner, tagBytesC15(1, protowire.BytesType)...), []byte{1, 2})
	inner = append(inner, tagBytesC15(4, protowire.EndGroupType)...)
	members = append(members, inner)
	nm := uint64(len(members))
	var groupN int64
	for l := 0; l <= 3; l++ {
		total := uint64(1)
		for i := 0; i < l; i++ {
			total *= nm
		}
		l := l
		h.ParChunks(total, 256, fmt.Sprintf("skip structured groups with %d members", l), func(lo, hi uint64) {
			for i := lo; i < hi; i++ {
				body := []byte{}
				j := i
				for p := 0; p < l; p++ {
					body = append(body, members[j%nm]...)
					j /= nm
				}
				g1 := append(append(tagBytesC15(9, protowire.StartGroupType), body...), tagBytesC15(9, protowire.EndGroupType)...)
				g2 := append(append(tagBytesC15(10, protowire.StartGroupType), g1...), tagBytesC15(10, protowire.EndGroupType)...)
				for _, g := range [][]byte{g1, g2, append(append([]byte{}, g1...), 0x18, 0x0c), append(append([]byte{}, g2...), 0xff)} {
					if _, wf := checkSkip(h, g); wf {
						wellFormed.Add(1)
					} else {
						h.InternalError(fmt.Sprintf("structured group %x is not accepted by protowire", g))
					}
				}
			}
			h.EvalN(int64(hi-lo) * 4)
			h.DistinctN(int64(hi-lo) * 4)
			atomic.AddInt64(&groupN, int64(hi-lo)*4)
		})
	}
	h.Rep.Bounds["skip_structured_groups"] = groupN
	h.Sample(map[string]interface{}{"kind": "skip-structured-group", "bytes_hex": "4b1203787878" + "1a0178" + "4c"})
	h.Sample(map[string]interface{}{"kind": "skip-tokens", "bytes_hex": "0b0affffffffffffffff7f"})
	h.Sample(map[string]interface{}{"kind": "skip", "bytes_hex": hex.EncodeToString(g)})
	h.Sample(map[string]interface{}{"kind": "skip", "bytes_hex": "0b0c"})
	h.AddExtra("skip_inputs_protowire_accepts", wellFormed.Load())
	if wellFormed.Load() < 1000 {
		h.InternalError("vacuous: fewer than 1000 well-formed Skip inputs")
	}
	h.Rep.Rule = "dense sweep: every x below the bound (distinct by construction) for Sov/Soz, incl. the sign-extended twin of each 32-bit pattern; boundary set 2^k-1,2^k,2^k+1,negations,complements; EncodeVarint: boundary values x every offset of a 24-byte sentinel buffer (non-trivial = the varint fits); Skip: every byte string of length<=3 (all 256 values), every string over the reduced alphabet up to the stated length, every sequence of wire tokens (16 tags, 15 boundary varints, overlong varints, fixed fillers) up to the stated length (all distinct by construction), plus truncations of long well-formed records"
	h.Rep.Assumptions = []string{"google.golang.org/protobuf/encoding/protowire v1.34.0 is the wire-format reference"}
}

func replayC15(h *hz.H) {
	var c c15Case
	h.LoadReplay(&c)
	switch c.Kind {
	case "sov":
		checkSov(h, c.X)
	case "soz":
		checkSoz(h, c.X)
	case "encode":
		checkEncode(h, c.X, c.Offset, c.BufLen)
	case "skip":
		b, _ := hex.DecodeString(c.Bytes)
		if c.PassPos > 0 {
			judgeOnlyAt = c.PassPos
			runSkipHistories(h)
		} else {
			checkSkip(h, b)
		}
	}
	h.Eval(true, 1)
	h.Eval(true, 2)
	h.Finish()
}
