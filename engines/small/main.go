// Engine "small": C15 (runtime helpers vs protowire), C17 (timepb arithmetic), C16 (anyutil).
package main

import (
	"fmt"
	"os"

	"github.com/cosmos/cosmos-proto/internal/zzverif/hz"
)

func main() {
	h := hz.New()
	switch h.Prop {
	case "C15":
		if h.Replay != "" {
			replayC15(h)
		}
		runC15(h)
	case "C17":
		if h.Replay != "" {
			replayC17(h)
		}
		runC17(h)
	case "C16":
		if h.Replay != "" {
			replayC16(h)
		}
		runC16(h)
	default:
		fmt.Fprintln(os.Stderr, "INTERNAL: engine small does not serve", h.Prop)
		os.Exit(2)
	}
	h.Finish()
}
