package main

import (
	"fmt"
	"math"
	"math/big"
	"time"

	"github.com/cosmos/cosmos-proto/internal/zzverif/hz"
	"github.com/cosmos/cosmos-proto/support/timepb"
	durpb "google.golang.org/protobuf/types/known/durationpb"
	tspb "google.golang.org/protobuf/types/known/timestamppb"
)

type c17Case struct {
	Kind string `json:"kind"` // add | overflow | compare | compare3
	TS   int64  `json:"t_seconds"`
	TN   int32  `json:"t_nanos"`
	DS   int64  `json:"d_seconds,omitempty"`
	DN   int32  `json:"d_nanos,omitempty"`
	US   int64  `json:"u_seconds,omitempty"`
	UN   int32  `json:"u_nanos,omitempty"`
	VS   int64  `json:"v_seconds,omitempty"`
	VN   int32  `json:"v_nanos,omitempty"`
}

const (
	minTS  = -62135596800
	maxTS  = 253402300799
	maxDS  = 315576000000
	giga   = 1000000000
	maxStd = math.MaxInt64 / giga // seconds that surely fit a time.Duration together with nanos
)

func nanosWindow(K int32) []int32 {
	var out []int32
	for i := int32(0); i <= K; i++ {
		out = append(out, i)
	}
	out = append(out, giga/2-1, giga/2)
	// the nanos at which a +-9223372036 s duration crosses the time.Duration range
	out = append(out, 854775806, 854775807, 854775808, 854775809)
	for i := giga - 1 - K; i <= giga-1; i++ {
		out = append(out, i)
	}
	return out
}

func signClass(x int64) string {
	switch {
	case x < 0:
		return "neg"
	case x > 0:
		return "pos"
	}
	return "zero"
}

// sumClass classifies where t.nanos+d.nanos falls: the carry/borrow class of the case.
func sumClass(tn, dn int32) string {
	s := int64(tn) + int64(dn)
	switch {
	case s >= giga:
		return "carry"
	case s < 0:
		return "borrow"
	}
	return "plain"
}

func checkAdd(h *hz.H, ts int64, tn int32, ds int64, dn int32) bool {
	c := c17Case{Kind: "add", TS: ts, TN: tn, DS: ds, DN: dn}
	t := &tspb.Timestamp{Seconds: ts, Nanos: tn}
	d := &durpb.Duration{Seconds: ds, Nanos: dn}
	key := fmt.Sprintf("C17/add/d=%s/nanos=%s", signClass(int64(signOf(ds, dn))), sumClass(tn, dn))
	// exact reference (no overflow possible for valid operands: |seconds| < 2^39)
	sn := int64(tn) + int64(dn)
	wantS := ts + ds
	switch {
	case sn >= giga:
		sn -= giga
		wantS++
	case sn < 0:
		sn += giga
		wantS--
	}
	var r *tspb.Timestamp
	if p := hz.Catch(func() { r = timepb.Add(t, d) }); p != nil {
		h.Violate(key+"/panic", fmt.Sprintf("Add({%d,%d},{%d,%d}) panicked: %v (exact sum {%d,%d} is representable)", ts, tn, ds, dn, p, wantS, sn), c)
		return false
	}
	if r == nil {
		h.Violate(key+"/nil", fmt.Sprintf("Add({%d,%d},{%d,%d}) returned nil", ts, tn, ds, dn), c)
		return false
	}
	if r == t {
		h.Violate(key+"/not-fresh", fmt.Sprintf("Add({%d,%d},{%d,%d}) returned its argument, not a fresh value", ts, tn, ds, dn), c)
		return false
	}
	if t.Seconds != ts || t.Nanos != tn || d.Seconds != ds || d.Nanos != dn {
		h.Violate(key+"/mutated-input", fmt.Sprintf("Add({%d,%d},{%d,%d}) modified an operand", ts, tn, ds, dn), c)
		return false
	}
	if r.Nanos < 0 || r.Nanos >= giga {
		h.Violate(key+"/not-normalised", fmt.Sprintf("Add({%d,%d},{%d,%d}) = {%d,%d}: nanos outside [0,1e9)", ts, tn, ds, dn, r.Seconds, r.Nanos), c)
		return false
	}
	if r.Seconds != wantS || int64(r.Nanos) != sn {
		h.Violate(key+"/inexact", fmt.Sprintf("Add({%d,%d},{%d,%d}) = {%d,%d}, exact {%d,%d}", ts, tn, ds, dn, r.Seconds, r.Nanos, wantS, sn), c)
		return false
	}
	if wantS >= minTS && wantS <= maxTS {
		if err := r.CheckValid(); err != nil {
			h.Violate(key+"/invalid", fmt.Sprintf("Add({%d,%d},{%d,%d}) = {%d,%d} is not a valid Timestamp: %v", ts, tn, ds, dn, r.Seconds, r.Nanos, err), c)
			return false
		}
	}
	if fitsStd(ds, dn) {
		std := time.Duration(ds*giga + int64(dn))
		var r2 *tspb.Timestamp
		if p := hz.Catch(func() { r2 = timepb.AddStd(t, std) }); p != nil {
			h.Violate(key+"/addstd-panic", fmt.Sprintf("AddStd({%d,%d}, %d) panicked: %v", ts, tn, int64(std), p), c)
			return false
		}
		if r2 == nil || r2 == t || r2.Seconds != r.Seconds || r2.Nanos != r.Nanos {
			h.Violate(key+"/addstd-differs", fmt.Sprintf("AddStd({%d,%d}, %dns) = %v but Add = {%d,%d}", ts, tn, int64(std), r2, r.Seconds, r.Nanos), c)
			return false
		}
	}
	return true
}

// fitsStd reports whether the duration is exactly representable as a time.Duration.
func fitsStd(ds int64, dn int32) bool {
	switch {
	case ds > -maxStd && ds < maxStd:
		return true
	case ds == maxStd:
		return int64(dn) <= math.MaxInt64-maxStd*giga
	case ds == -maxStd:
		return int64(dn) >= math.MinInt64+maxStd*giga
	}
	return false
}

// exactBig computes t+d with math/big, as an independent cross-check of the int64 reference above.
func exactBig(ts int64, tn int32, ds int64, dn int32) (sec *big.Int, nanos int64) {
	g := big.NewInt(giga)
	a := new(big.Int).Mul(big.NewInt(ts), g)
	a.Add(a, big.NewInt(int64(tn)))
	b := new(big.Int).Mul(big.NewInt(ds), g)
	b.Add(b, big.NewInt(int64(dn)))
	a.Add(a, b)
	m := new(big.Int)
	q, _ := new(big.Int).DivMod(a, g, m) // Euclidean: 0 <= m < g
	return q, m.Int64()
}

func checkOverflow(h *hz.H, ts int64, tn int32, ds int64, dn int32) bool {
	c := c17Case{Kind: "overflow", TS: ts, TN: tn, DS: ds, DN: dn}
	sec, _ := exactBig(ts, tn, ds, dn)
	if sec.IsInt64() {
		return true // representable: the overflow clause says nothing
	}
	t := &tspb.Timestamp{Seconds: ts, Nanos: tn}
	d := &durpb.Duration{Seconds: ds, Nanos: dn}
	var r *tspb.Timestamp
	p := hz.Catch(func() { r = timepb.Add(t, d) })
	if p == nil {
		h.Violate(fmt.Sprintf("C17/overflow/d=%s/nanos=%s", signClass(int64(signOf(ds, dn))), sumClass(tn, dn)),
			fmt.Sprintf("Add({%d,%d},{%d,%d}) returned {%d,%d} although the exact seconds %s do not fit in int64 (must panic)", ts, tn, ds, dn, r.Seconds, r.Nanos, sec), c)
		return false
	}
	return true
}

func signOf(s int64, n int32) int {
	switch {
	case s < 0 || s == 0 && n < 0:
		return -1
	case s > 0 || n > 0:
		return 1
	}
	return 0
}

func exactCmp(as int64, an int32, bs int64, bn int32) int {
	g := big.NewInt(giga)
	a := new(big.Int).Mul(big.NewInt(as), g)
	a.Add(a, big.NewInt(int64(an)))
	b := new(big.Int).Mul(big.NewInt(bs), g)
	b.Add(b, big.NewInt(int64(bn)))
	return a.Cmp(b)
}

type tsv struct {
	s int64
	n int32
}

func checkCompare(h *hz.H, a, b tsv) bool {
	c := c17Case{Kind: "compare", TS: a.s, TN: a.n, US: b.s, UN: b.n}
	want := exactCmp(a.s, a.n, b.s, b.n)
	var got, rev int
	ta, tb := &tspb.Timestamp{Seconds: a.s, Nanos: a.n}, &tspb.Timestamp{Seconds: b.s, Nanos: b.n}
	if p := hz.Catch(func() { got = timepb.Compare(ta, tb); rev = timepb.Compare(tb, ta) }); p != nil {
		h.Violate("C17/compare/panic", fmt.Sprintf("Compare({%d,%d},{%d,%d}) panicked: %v", a.s, a.n, b.s, b.n, p), c)
		return false
	}
	key := fmt.Sprintf("C17/compare/sec=%s/nanos=%s", signClass(a.s-b.s), signClass(int64(a.n)-int64(b.n)))
	if got != want {
		h.Violate(key+"/order", fmt.Sprintf("Compare({%d,%d},{%d,%d}) = %d, instants compare %d", a.s, a.n, b.s, b.n, got, want), c)
		return false
	}
	if rev != -got {
		h.Violate(key+"/antisymmetry", fmt.Sprintf("Compare(a,b)=%d but Compare(b,a)=%d for a={%d,%d} b={%d,%d}", got, rev, a.s, a.n, b.s, b.n), c)
		return false
	}
	if ta.Seconds != a.s || ta.Nanos != a.n || tb.Seconds != b.s || tb.Nanos != b.n {
		h.Violate(key+"/mutated-input", "Compare modified an operand", c)
		return false
	}
	return true
}

func checkCompare3(h *hz.H, a, b, c3 tsv) bool {
	c := c17Case{Kind: "compare3", TS: a.s, TN: a.n, US: b.s, UN: b.n, VS: c3.s, VN: c3.n}
	mk := func(x tsv) *tspb.Timestamp { return &tspb.Timestamp{Seconds: x.s, Nanos: x.n} }
	var ab, bc, ac int
	if p := hz.Catch(func() {
		ab, bc, ac = timepb.Compare(mk(a), mk(b)), timepb.Compare(mk(b), mk(c3)), timepb.Compare(mk(a), mk(c3))
	}); p != nil {
		h.Violate("C17/compare/panic", fmt.Sprintf("Compare panicked: %v", p), c)
		return false
	}
	if ab <= 0 && bc <= 0 && !(ac <= 0) || (ab < 0 || bc < 0) && ab <= 0 && bc <= 0 && !(ac < 0) {
		h.Violate("C17/compare/transitivity", fmt.Sprintf("a<=b (%d), b<=c (%d) but Compare(a,c)=%d for a={%d,%d} b={%d,%d} c={%d,%d}", ab, bc, ac, a.s, a.n, b.s, b.n, c3.s, c3.n), c)
		return false
	}
	return true
}

func runC17(h *hz.H) {
	K := int32(64)
	if h.Thorough() {
		K = 1024
	}
	h.Rep.Bounds["nanos_window_K"] = K
	tsSecs := []int64{minTS, minTS + 1, -2, -1, 0, 1, 2, maxTS - 1, maxTS}
	dSecs := []int64{-maxDS, -maxStd - 1, -maxStd, -maxStd + 1, -2, -1, 0, 1, 2, maxStd - 1, maxStd, maxStd + 1, maxDS}
	nw := nanosWindow(K)
	type dur struct {
		s int64
		n int32
	}
	var durs []dur
	for _, s := range dSecs {
		for _, n := range nw {
			if s >= 0 {
				durs = append(durs, dur{s, n})
			}
			if s <= 0 && n != 0 {
				durs = append(durs, dur{s, -n})
			}
			if s < 0 && n == 0 {
				durs = append(durs, dur{s, 0})
			}
		}
	}
	h.Rep.Bounds["timestamp_seconds"] = tsSecs
	h.Rep.Bounds["duration_seconds"] = dSecs
	h.Rep.Bounds["nanos_values"] = len(nw)
	h.Rep.Bounds["durations"] = len(durs)
	nT := int64(len(tsSecs) * len(nw))
	total := nT * int64(len(durs))
	var classes [3]int64
	h.ParChunks(uint64(total), 1<<14, "Add lattice", func(lo, hi uint64) {
		var cl [3]int64
		for i := lo; i < hi; i++ {
			ti := int64(i) / int64(len(durs))
			d := durs[int64(i)%int64(len(durs))]
			ts := tsSecs[ti/int64(len(nw))]
			tn := nw[ti%int64(len(nw))]
			// keep the exactness clause to sums that stay representable as valid-range seconds +-1 day of slack
			checkAdd(h, ts, tn, d.s, d.n)
			switch sumClass(tn, d.n) {
			case "carry":
				cl[0]++
			case "borrow":
				cl[1]++
			default:
				cl[2]++
			}
		}
		h.EvalN(int64(hi - lo))
		h.DistinctN(int64(hi - lo))
		for k := range cl {
			h.Counter([]string{"add_cases_with_carry", "add_cases_with_borrow", "add_cases_plain"}[k], cl[k])
			classes[k] = 1
		}
	})
	h.Sample(map[string]interface{}{"kind": "add", "t": []int64{0, 1}, "d": []int64{0, -2}})
	h.Sample(map[string]interface{}{"kind": "add", "t": []int64{maxTS, giga - 1}, "d": []int64{-maxDS, -(giga - 1)}})
	// cross-check the int64 reference with math/big on the corner sub-lattice (K=2)
	small := nanosWindow(2)
	for _, ts := range tsSecs {
		for _, tn := range small {
			for _, ds := range dSecs {
				for _, dn0 := range small {
					for _, sg := range []int32{1, -1} {
						dn := dn0 * sg
						if ds > 0 && dn < 0 || ds < 0 && dn > 0 {
							continue
						}
						sec, nn := exactBig(ts, tn, ds, dn)
						sn := int64(tn) + int64(dn)
						ws := ts + ds
						if sn >= giga {
							sn -= giga
							ws++
						} else if sn < 0 {
							sn += giga
							ws--
						}
						if !sec.IsInt64() || sec.Int64() != ws || nn != sn {
							h.InternalError(fmt.Sprintf("reference mismatch int64 vs big for {%d,%d}+{%d,%d}", ts, tn, ds, dn))
						}
					}
				}
			}
		}
	}
	// overflow clause: seconds sums that leave int64
	ovT := []int64{math.MinInt64, math.MinInt64 + 1, math.MinInt64 + 2, math.MaxInt64 - 2, math.MaxInt64 - 1, math.MaxInt64}
	ovD := []int64{-maxDS, -2, -1, 0, 1, 2, maxDS}
	ovN := nanosWindow(2)
	var ovCases, ovReal int64
	for _, ts := range ovT {
		for _, tn := range ovN {
			for _, ds := range ovD {
				for _, dn0 := range ovN {
					for _, sg := range []int32{1, -1} {
						dn := dn0 * sg
						if ds > 0 && dn < 0 || ds < 0 && dn > 0 || dn0 == 0 && sg == -1 {
							continue
						}
						ovCases++
						if sec, _ := exactBig(ts, tn, ds, dn); !sec.IsInt64() {
							ovReal++
							h.Eval(true, hz.Hash("ov", fmt.Sprint(ts, tn, ds, dn)))
						} else {
							h.Eval(false, 0)
						}
						checkOverflow(h, ts, tn, ds, dn)
					}
				}
			}
		}
	}
	h.AddExtra("overflow_lattice_cases", ovCases)
	h.AddExtra("overflow_lattice_cases_that_overflow", ovReal)
	h.Sample(map[string]interface{}{"kind": "overflow", "t": []int64{math.MaxInt64, giga - 1}, "d": []int64{0, 1}})
	// Compare: all ordered pairs and triples over the K=4 lattice (valid timestamps)
	var lat []tsv
	for _, s := range tsSecs {
		for _, n := range nanosWindow(4) {
			lat = append(lat, tsv{s, n})
		}
	}
	n := int64(len(lat))
	h.Rep.Bounds["compare_lattice"] = n
	h.ParChunks(uint64(n*n), 1<<10, "Compare pairs", func(lo, hi uint64) {
		for i := lo; i < hi; i++ {
			checkCompare(h, lat[int64(i)/n], lat[int64(i)%n])
		}
		h.EvalN(int64(hi - lo))
		h.DistinctN(int64(hi - lo))
	})
	// triples over a thinner lattice to keep n^3 bounded
	var lat3 []tsv
	for _, s := range []int64{minTS, -1, 0, 1, maxTS} {
		for _, nn := range []int32{0, 1, giga / 2, giga - 2, giga - 1} {
			lat3 = append(lat3, tsv{s, nn})
		}
	}
	if h.Thorough() {
		lat3 = lat
	}
	m := int64(len(lat3))
	h.Rep.Bounds["compare_triple_lattice"] = m
	h.ParChunks(uint64(m*m*m), 1<<12, "Compare triples", func(lo, hi uint64) {
		for i := lo; i < hi; i++ {
			checkCompare3(h, lat3[int64(i)/(m*m)], lat3[(int64(i)/m)%m], lat3[int64(i)%m])
		}
		h.EvalN(int64(hi - lo))
		h.DistinctN(int64(hi - lo))
	})
	h.Sample(map[string]interface{}{"kind": "compare", "a": []int64{-1, giga - 1}, "b": []int64{0, 0}})
	if c, _ := h.Rep.Extra["add_cases_with_borrow"].(int64); c == 0 {
		h.InternalError("vacuous: no borrow cases enumerated")
	}
	if c, _ := h.Rep.Extra["add_cases_with_carry"].(int64); c == 0 {
		h.InternalError("vacuous: no carry cases enumerated")
	}
	h.Rep.Rule = "full cross product (valid timestamps: boundary seconds x nanos window) x (valid durations of both signs: boundary seconds x signed nanos window); every case distinct by construction; non-trivial = all (each exercises Add and, when the duration fits time.Duration, AddStd). Overflow lattice: extreme int64 seconds x small durations; hashed cases are those whose exact sum leaves int64. Compare: all ordered pairs over the lattice and all triples."
	h.Rep.Assumptions = []string{"exact reference is int64 floor arithmetic on (seconds,nanos), cross-checked against math/big on the corner lattice", "Timestamp/Duration validity ranges as in timestamppb/durationpb CheckValid"}
}

func replayC17(h *hz.H) {
	var c c17Case
	h.LoadReplay(&c)
	switch c.Kind {
	case "add":
		checkAdd(h, c.TS, c.TN, c.DS, c.DN)
	case "overflow":
		checkOverflow(h, c.TS, c.TN, c.DS, c.DN)
	case "compare":
		checkCompare(h, tsv{c.TS, c.TN}, tsv{c.US, c.UN})
	case "compare3":
		checkCompare3(h, tsv{c.TS, c.TN}, tsv{c.US, c.UN}, tsv{c.VS, c.VN})
	}
	h.Eval(true, 1)
	h.Eval(true, 2)
	h.Finish()
}
