package main

import (
	"bytes"
	"crypto/sha256"
	"encoding/hex"
	"fmt"
	"os"
	"os/exec"
	"path/filepath"
	"sort"
	"strings"
	"sync"
	"sync/atomic"

	"github.com/cosmos/cosmos-proto/internal/zzverif/hz"
	"github.com/cosmos/cosmos-proto/internal/zzverif/schema"
	"google.golang.org/protobuf/proto"
	"google.golang.org/protobuf/reflect/protodesc"
	"google.golang.org/protobuf/reflect/protoregistry"
	"google.golang.org/protobuf/types/descriptorpb"
	"google.golang.org/protobuf/types/pluginpb"

	_ "github.com/cosmos/cosmos-proto/testpb"
)

type c13case struct {
	Set      string   `json:"request_set"`
	MapIter  string   `json:"VERIF_MAPITER,omitempty"`
	Gen      []string `json:"file_to_generate"`
	ProtoOrd []string `json:"proto_file_order,omitempty"`
	Param    string   `json:"parameter"`
	Config   string   `json:"process_config,omitempty"`
	Plain    bool     `json:"uncontrolled_runtime,omitempty"`
}

type reqSet struct {
	name  string
	files []*descriptorpb.FileDescriptorProto // files to generate (deps are resolved through the registry)
	param string
}

func manyMessages() []*descriptorpb.FileDescriptorProto {
	f := schema.NewFile("many/many.proto", "many", schema.GenRoot+"many")
	en := f.Enum("E", "E_ZERO", 0, "E_ONE", 1)
	var prev string
	for i := 0; i < 14; i++ {
		m := f.Msg(fmt.Sprintf("M%02d", i))
		m.Field("a", 1, schema.S(schema.Int32))
		m.Map("mp", 2, schema.String, schema.S(schema.Int64))
		m.Field("e", 3, schema.E(en))
		if prev != "" {
			m.Field("prev", 4, schema.M(prev))
			m.Rep("prevs", 5, schema.M(prev))
		}
		m.OneofField("o1", "x1", 6, schema.S(schema.String))
		m.OneofField("o1", "y1", 7, schema.S(schema.Bool))
		m.OneofField("o2", "x2", 8, schema.S(schema.Sint32))
		m.OneofField("o2", "y2", 9, schema.M(m.Full()))
		if i%3 == 0 {
			m.OneofField("o3", "x3", 10, schema.S(schema.Bytes))
			m.OneofField("o4", "x4", 11, schema.S(schema.Double))
			m.OneofField("o5", "x5", 12, schema.S(schema.Fixed32))
		}
		n := m.Nested("Inner")
		n.Field("v", 1, schema.S(schema.String))
		m.Field("inner", 13, schema.M(n.Full()))
		prev = m.Full()
	}
	svc := &descriptorpb.ServiceDescriptorProto{Name: proto.String("Svc")}
	svc.Method = append(svc.Method, &descriptorpb.MethodDescriptorProto{Name: proto.String("Do"), InputType: proto.String(".many.M00"), OutputType: proto.String(".many.M01")})
	f.P.Service = append(f.P.Service, svc)
	return []*descriptorpb.FileDescriptorProto{f.P}
}

// unusedImport: app.proto imports annot.proto (another Go package) and lib.proto (same proto package, other Go
// package) but uses types of neither; annot2.proto is imported publicly. Subsets of file_to_generate decide
// whether the imported files are co-generated.
func unusedImport() []*descriptorpb.FileDescriptorProto {
	an := schema.NewFile("imp/annot.proto", "imp.annot", schema.GenRoot+"imp/annot")
	am := an.Msg("Marker")
	am.Field("note", 1, schema.S(schema.String))
	lib := schema.NewFile("imp/lib.proto", "imp.lib", schema.GenRoot+"imp/lib")
	lm := lib.Msg("Helper")
	lm.Field("v", 1, schema.S(schema.Int32))
	app := schema.NewFile("imp/app.proto", "imp.app", schema.GenRoot+"imp/app", "imp/annot.proto", "imp/lib.proto")
	m := app.Msg("App")
	m.Field("id", 1, schema.S(schema.Int64))
	m.Field("helper", 2, schema.M(lm.Full())) // lib is used, annot is not
	return []*descriptorpb.FileDescriptorProto{an.P, lib.P, app.P}
}

// layouts: one Go package built from two proto packages (api.proto imports types.proto, after a foreign import),
// a third file of the second proto package importing the first; google/protobuf/timestamp.proto itself is generable. Subsets of file_to_generate decide what is co-generated.
func layouts() []*descriptorpb.FileDescriptorProto {
	goPkg := schema.GenRoot + "lay/acme"
	ty := schema.NewFile("lay/types.proto", "acme.types", goPkg)
	kind := ty.Enum("Kind", "KIND_ZERO", 0, "KIND_B", 2, "KIND_A", 1, "KIND_NEG", -1)
	tm := ty.Msg("T")
	tm.Field("v", 1, schema.S(schema.Int32))
	api := schema.NewFile("lay/api.proto", "acme.api", goPkg, "google/protobuf/timestamp.proto", "lay/types.proto")
	am := api.Msg("Api")
	am.Field("t", 1, schema.M(tm.Full()))
	am.Field("k", 2, schema.E(kind))
	am.Field("ts", 3, schema.M(".google.protobuf.Timestamp"))
	am.Map("by", 4, schema.String, schema.M(tm.Full()))
	more := schema.NewFile("lay/more.proto", "acme.api", goPkg, "lay/api.proto")
	mm := more.Msg("More")
	mm.Field("a", 1, schema.M(am.Full()))
	mm.Rep("ks", 2, schema.M(am.Full()))
	// the same reserved names (they collide with protoreflect.Message methods and get renamed) in every file: what a name
	// becomes in one file must not depend on which files were handled before it
	tm.Field("type", 2, schema.S(schema.String))
	tm.OneofField("get", "g_a", 3, schema.S(schema.Int32))
	tm.OneofField("get", "g_b", 4, schema.S(schema.String))
	am.Field("type", 5, schema.S(schema.String))
	am.Field("descriptor", 6, schema.S(schema.Int64))
	am.OneofField("get", "g_a", 7, schema.S(schema.Int32))
	mm.Field("type", 3, schema.S(schema.Bytes))
	mm.Field("descriptor", 4, schema.S(schema.Int64))
	mm.OneofField("range", "r_a", 5, schema.S(schema.Int32))
	// the imported well-known file is itself among the files that may be requested (protoc lets you generate it)
	return []*descriptorpb.FileDescriptorProto{schema.WellKnown("google/protobuf/timestamp.proto"), ty.P, api.P, more.P}
}

func testpbFiles() []*descriptorpb.FileDescriptorProto {
	var out []*descriptorpb.FileDescriptorProto
	for _, n := range []string{"1.proto", "2.proto", "3.proto"} {
		fd, err := protoregistry.GlobalFiles.FindFileByPath(n)
		if err != nil {
			panic(err)
		}
		out = append(out, protodesc.ToFileDescriptorProto(fd))
	}
	return out
}

type runOut struct {
	files  map[string]string // name -> content
	errS   string
	stderr string
	exit   int
}

func runPlugin(plugin string, req *pluginpb.CodeGeneratorRequest, env []string, dir, argv0 string) runOut {
	in, _ := proto.Marshal(req)
	cmd := exec.Command(plugin)
	if argv0 != "" {
		cmd.Args = []string{argv0}
	}
	cmd.Stdin = bytes.NewReader(in)
	var out, errb bytes.Buffer
	cmd.Stdout, cmd.Stderr = &out, &errb
	cmd.Env = env
	cmd.Dir = dir
	err := cmd.Run()
	ro := runOut{files: map[string]string{}, stderr: errb.String()}
	if err != nil {
		if ee, ok := err.(*exec.ExitError); ok {
			ro.exit = ee.ExitCode()
		} else {
			ro.exit = -1
			ro.errS = err.Error()
			return ro
		}
	}
	resp := &pluginpb.CodeGeneratorResponse{}
	if e := proto.Unmarshal(out.Bytes(), resp); e != nil {
		ro.errS = "undecodable response: " + e.Error()
		return ro
	}
	ro.errS = resp.GetError()
	for _, f := range resp.GetFile() {
		ro.files[f.GetName()] = f.GetContent()
	}
	return ro
}

func baseEnv(extra ...string) []string {
	env := []string{"PATH=/usr/bin:/bin", "HOME=/nonexistent", "LANG=C"}
	return append(env, extra...)
}

func traceOf(stderr string) (n int, bs []int) {
	for _, l := range strings.Split(stderr, "\n") {
		if strings.HasPrefix(l, "VERIFMAP ") {
			var k, b int
			fmt.Sscanf(l, "VERIFMAP %d %d", &k, &b)
			bs = append(bs, b)
			n++
		}
	}
	return
}

func sha(s string) string {
	x := sha256.Sum256([]byte(s))
	return hex.EncodeToString(x[:8])
}

func firstDiff(a, b string) string {
	la, lb := strings.Split(a, "\n"), strings.Split(b, "\n")
	for i := 0; i < len(la) && i < len(lb); i++ {
		if la[i] != lb[i] {
			return fmt.Sprintf("line %d: %q vs %q", i+1, clip(la[i]), clip(lb[i]))
		}
	}
	return fmt.Sprintf("lengths %d vs %d lines", len(la), len(lb))
}

func clip(s string) string {
	if len(s) > 120 {
		return s[:120] + "…"
	}
	return s
}

func permutationsS(xs []string) [][]string {
	if len(xs) <= 1 {
		return [][]string{append([]string(nil), xs...)}
	}
	var out [][]string
	for i := range xs {
		rest := append(append([]string(nil), xs[:i]...), xs[i+1:]...)
		for _, p := range permutationsS(rest) {
			out = append(out, append([]string{xs[i]}, p...))
		}
	}
	return out
}

func subsetsS(xs []string) [][]string {
	var out [][]string
	for mask := 1; mask < 1<<len(xs); mask++ {
		var s []string
		for i := range xs {
			if mask&(1<<i) != 0 {
				s = append(s, xs[i])
			}
		}
		out = append(out, s)
	}
	return out
}

// validOrders enumerates permutations of the proto_file list that keep every file after its dependencies.
func validOrders(all []*descriptorpb.FileDescriptorProto, limit int) [][]string {
	names := make([]string, len(all))
	deps := map[string][]string{}
	for i, f := range all {
		names[i] = f.GetName()
		deps[f.GetName()] = f.Dependency
	}
	var out [][]string
	var rec func(cur []string, used map[string]bool)
	rec = func(cur []string, used map[string]bool) {
		if len(out) >= limit {
			return
		}
		if len(cur) == len(names) {
			out = append(out, append([]string(nil), cur...))
			return
		}
		for _, n := range names {
			if used[n] {
				continue
			}
			ok := true
			for _, d := range deps[n] {
				if !used[d] {
					ok = false
				}
			}
			if !ok {
				continue
			}
			used[n] = true
			rec(append(cur, n), used)
			used[n] = false
		}
	}
	rec(nil, map[string]bool{})
	return out
}

func runC13(h *hz.H) {
	plugin := os.Getenv("VERIF_PLUGIN")
	pluginCtl := os.Getenv("VERIF_PLUGIN_MAPCTL")
	scratch := os.Getenv("VERIF_SCRATCH_DIR")
	if plugin == "" || pluginCtl == "" || scratch == "" {
		h.InternalError("VERIF_PLUGIN / VERIF_PLUGIN_MAPCTL / VERIF_SCRATCH_DIR not set")
		return
	}
	sets := []reqSet{
		{"mx", schema.MX(), ""},
		{"testpb", testpbFiles(), "paths=source_relative"},
		{"many", manyMessages(), ""},
		{"unused-import", unusedImport(), ""},
		{"layouts", layouts(), ""},
	}
	if h.Thorough() || h.Replay != "" {
		sets = append(sets, reqSet{"mx-fast-only", schema.MX(), "features=fast"})
	}
	if h.Replay != "" {
		var c c13case
		h.LoadReplay(&c)
		for _, s := range sets {
			if s.name == c.Set {
				replayC13(h, s, c, plugin, pluginCtl, scratch)
			}
		}
		h.Eval(true, 1)
		h.Eval(true, 2)
		return
	}
	var states, transitions, traces atomic.Int64
	var effective atomic.Int64
	for _, s := range sets {
		if _, err := schema.Validate(s.files); err != nil {
			h.InternalError("request set " + s.name + " invalid: " + err.Error())
			return
		}
		var gen []string
		for _, f := range s.files {
			gen = append(gen, f.GetName())
		}
		req := schema.Request(s.files, gen, s.param)
		ctl := func(v string) []string { return baseEnv("VERIF_MAPITER=" + v) }
		// baseline (controlled, word 0, hash0 fixed to 0, traced) twice
		b1 := runPlugin(pluginCtl, req, ctl("1,0,-1,0,-1,0,1,0,1"), scratch, "")
		b2 := runPlugin(pluginCtl, req, ctl("1,0,-1,0,-1,0,1,0,1"), scratch, "")
		N, Bs := traceOf(b1.stderr)
		N2, Bs2 := traceOf(b2.stderr)
		if b1.errS != "" || b1.exit != 0 || len(b1.files) == 0 {
			h.Violate("C13/baseline-failed/"+s.name, fmt.Sprintf("the plugin does not serve request set %s: exit=%d error=%s", s.name, b1.exit, clip(b1.errS)), c13case{Set: s.name, Gen: gen, Param: s.param})
			continue
		}
		if N == 0 {
			h.InternalError("vacuous: the controlled plugin reported no map iteration (runtime overlay not linked in?)")
			return
		}
		if N != N2 || fmt.Sprint(Bs) != fmt.Sprint(Bs2) {
			h.InternalError(fmt.Sprintf("controller not deterministic: baseline traces differ (%d vs %d iterations)", N, N2))
			return
		}
		h.Rep.Bounds["map_iterations/"+s.name] = N
		states.Add(1)
		check := func(ro runOut, c c13case, oracle string, subsetOK bool) bool {
			transitions.Add(1)
			traces.Add(1)
			key := fmt.Sprintf("C13/%s/%s", oracle, s.name)
			if ro.errS != "" || ro.exit != 0 {
				h.Violate(key+"/failed", fmt.Sprintf("request set %s under %s: plugin failed: exit=%d error=%s", s.name, oracle, ro.exit, clip(ro.errS)), c)
				return false
			}
			if !subsetOK && len(ro.files) != len(b1.files) {
				h.Violate(key+"/file-set", fmt.Sprintf("request set %s under %s: %d files generated, baseline %d", s.name, oracle, len(ro.files), len(b1.files)), c)
				return false
			}
			for name, content := range ro.files {
				want, ok := b1.files[name]
				if !ok {
					h.Violate(key+"/unexpected-file", fmt.Sprintf("request set %s under %s: unexpected output file %s", s.name, oracle, name), c)
					return false
				}
				if content != want {
					h.Violate(key+"/content-differs", fmt.Sprintf("request set %s under %s (%+v): content of %s differs from the baseline run: %s", s.name, oracle, c, name, firstDiff(want, content)), c)
					return false
				}
			}
			return true
		}
		type job struct {
			c      c13case
			oracle string
			run    func() runOut
			subset bool
		}
		var jobs []job
		mk := func(v string) c13case { return c13case{Set: s.name, MapIter: v, Gen: gen, Param: s.param} }
		// (2) global policies
		maxB := 0
		for _, b := range Bs {
			if b > maxB {
				maxB = b
			}
		}
		for r := 1; r < 8<<maxB; r++ {
			v := fmt.Sprintf("1,%d,-1,0,-1,0,1,0,0", r)
			jobs = append(jobs, job{mk(v), "map-iteration:global-word", func() runOut { return runPlugin(pluginCtl, req, ctl(v), scratch, "") }, false})
		}
		// (3) single deviation: every iteration, every choice
		for k := 0; k < N; k++ {
			for r := 1; r < 8<<Bs[k]; r++ {
				if !h.Thorough() && s.name == "testpb" && r%3 != 1 {
					continue // quick tier: the checked-in schemas get every iteration but a third of the words; mx and many get all
				}
				v := fmt.Sprintf("2,0,%d,%d,-1,0,1,0,0", k, r)
				jobs = append(jobs, job{mk(v), "map-iteration:one-deviation", func() runOut { return runPlugin(pluginCtl, req, ctl(v), scratch, "") }, false})
			}
		}
		// (4) double deviations (thorough; thinned: r in {1,3,5,7} x {2,5})
		if h.Thorough() {
			for k1 := 0; k1 < N; k1++ {
				for k2 := k1 + 1; k2 < N; k2++ {
					if Bs[k1] == 0 && Bs[k2] == 0 && (k1+k2)%3 != 0 {
						continue
					}
					for _, r1 := range []int{1, 3, 5, 7} {
						for _, r2 := range []int{2, 5} {
							v := fmt.Sprintf("2,0,%d,%d,%d,%d,1,0,0", k1, r1, k2, r2)
							jobs = append(jobs, job{mk(v), "map-iteration:two-deviations", func() runOut { return runPlugin(pluginCtl, req, ctl(v), scratch, "") }, false})
						}
					}
				}
			}
		}
		// (5) hash seeds x a few global words
		for _, h0 := range []uint32{1, 0xdeadbeef, 12345} {
			for _, r := range []int{0, 1, 5, 11} {
				v := fmt.Sprintf("1,%d,-1,0,-1,0,1,%d,0", r, h0)
				jobs = append(jobs, job{mk(v), "map-iteration:hash-seed", func() runOut { return runPlugin(pluginCtl, req, ctl(v), scratch, "") }, false})
			}
		}
		// (6) requests: permutations / subsets of file_to_generate, dependency-preserving orders of proto_file
		if len(gen) <= 4 {
			for _, sub := range subsetsS(gen) {
				for _, p := range permutationsS(sub) {
					p := p
					if fmt.Sprint(p) == fmt.Sprint(gen) {
						continue
					}
					r2 := schema.Request(s.files, p, s.param)
					c := c13case{Set: s.name, Gen: p, Param: s.param}
					jobs = append(jobs, job{c, "request:file_to_generate-subset-or-order", func() runOut {
						return runPlugin(pluginCtl, r2, ctl("1,0,-1,0,-1,0,1,0,0"), scratch, "")
					}, true})
				}
			}
		}
		all := schema.Closure(s.files)
		byName := map[string]*descriptorpb.FileDescriptorProto{}
		for _, f := range all {
			byName[f.GetName()] = f
		}
		for _, ord := range validOrders(all, 24) {
			ord := ord
			r2 := proto.Clone(req).(*pluginpb.CodeGeneratorRequest)
			r2.ProtoFile = nil
			for _, n := range ord {
				r2.ProtoFile = append(r2.ProtoFile, byName[n])
			}
			c := c13case{Set: s.name, Gen: gen, Param: s.param, ProtoOrd: ord}
			jobs = append(jobs, job{c, "request:proto_file-order", func() runOut { return runPlugin(pluginCtl, r2, ctl("1,0,-1,0,-1,0,1,0,0"), scratch, "") }, false})
		}
		// (7) process configurations
		for _, cf := range procConfigs(scratch) {
			cf := cf
			c := c13case{Set: s.name, Gen: gen, Param: s.param, Config: cf.name}
			jobs = append(jobs, job{c, "process-config:" + cf.name, func() runOut {
				return runPlugin(pluginCtl, req, append(append([]string(nil), cf.env...), "VERIF_MAPITER=1,0,-1,0,-1,0,1,0,0"), cf.dir, cf.argv0)
			}, false})
		}
		// (8) uncontrolled runtime, fresh processes
		reps := 4
		if h.Thorough() {
			reps = 24
		}
		for i := 0; i < reps; i++ {
			c := c13case{Set: s.name, Gen: gen, Param: s.param, Plain: true}
			jobs = append(jobs, job{c, "fresh-process-uncontrolled", func() runOut { return runPlugin(plugin, req, baseEnv(), scratch, "") }, false})
		}
		var mu sync.Mutex
		sampled := 0
		h.Par(int64(len(jobs)), "plugin runs for "+s.name, func(i int64) {
			j := jobs[i]
			ro := j.run()
			ok := check(ro, j.c, j.oracle, j.subset)
			states.Add(1)
			h.Eval(true, hz.Hash("C13", s.name, j.oracle, fmt.Sprintf("%+v", j.c)))
			if ok && strings.HasPrefix(j.oracle, "map-iteration:one") {
				effective.Add(1)
			}
			mu.Lock()
			if ok && sampled < 2 && h.WantSample() {
				sampled++
				h.Sample(map[string]interface{}{"request_set": s.name, "oracle": j.oracle, "case": j.c, "files": len(ro.files)})
			}
			mu.Unlock()
		})
		// hermeticity: none of the varied strings may appear in any generated content
		for name, content := range b1.files {
			for _, marker := range []string{scratch, "verif-home-marker", "verifusermarker", "verifhostmarker", "protoc-gen-verifmarker", "Kiritimati", "/var/tmp"} {
				if strings.Contains(content, marker) {
					h.Violate("C13/environment-text/"+s.name, fmt.Sprintf("generated file %s contains environment-dependent text %q", name, marker), c13case{Set: s.name, Gen: gen, Param: s.param})
				}
			}
		}
		var names []string
		for n, c := range b1.files {
			names = append(names, n+"@"+sha(c))
		}
		sort.Strings(names)
		h.AddExtra("baseline_files/"+s.name, names)
	}
	h.Rep.States = states.Load()
	h.Rep.Transitions = transitions.Load()
	h.Rep.Traces = traces.Load()
	h.AddExtra("single_deviation_runs_completed", effective.Load())
	h.Rep.Rule = "per request set (mx matrix schema, testpb, a 14-message file with up to 5 oneofs per message and a service, mx with features=fast): baseline with every map iteration taking word 0 and hash seed 0 (twice, traces must match); then EVERY global word, EVERY single deviating iteration (k, r) the runtime could choose, hash seeds, (thorough) pairs of deviations; every subset and order of file_to_generate; dependency-preserving orders of proto_file; 6 process configurations; fresh uncontrolled processes; state = (request, choice vector or configuration), transition = one plugin run compared file by file with the baseline; all non-trivial"
	h.Rep.Assumptions = []string{"Go 1.23 map iteration nondeterminism = the word drawn in mapiterinit + per-map hash0; both are owned through the patched runtime/map.go (VERIF_MAPITER); goroutine scheduling is irrelevant: the plugin is single-goroutine", "the wall clock cannot be moved in this sandbox: timestamps are excluded by byte-equality of runs started at different times"}
}

type procConfig struct {
	name  string
	env   []string
	dir   string
	argv0 string
}

// procConfigs: what a process inherits besides its request (working directory, environment incl. time zone and locale,
// argv[0]); the two TZ entries are 26 hours apart, so any local-time text differs between them whatever the second.
func procConfigs(scratch string) []procConfig {
	deep := filepath.Join(scratch, "a", "deeply", "nested", "working directory")
	os.MkdirAll(deep, 0o755)
	return []procConfig{
		{"cwd=/", baseEnv(), "/", ""},
		{"cwd=deep", baseEnv(), deep, ""},
		{"HOME+USER+TMPDIR", []string{"PATH=/bin", "HOME=/verif-home-marker", "USER=verifusermarker", "TMPDIR=" + deep, "LANG=de_DE.UTF-8", "TZ=Pacific/Kiritimati"}, scratch, ""},
		{"empty-env", []string{}, scratch, ""},
		{"argv0", baseEnv("HOSTNAME=verifhostmarker"), scratch, "/somewhere/else/protoc-gen-verifmarker"},
		{"TZ=UTC-12", baseEnv("TZ=Etc/GMT+12", "SOURCE_DATE_EPOCH=1"), scratch, ""},
	}
}

func replayC13(h *hz.H, s reqSet, c c13case, plugin, pluginCtl, scratch string) {
	var gen []string
	for _, f := range s.files {
		gen = append(gen, f.GetName())
	}
	base := runPlugin(pluginCtl, schema.Request(s.files, gen, s.param), baseEnv("VERIF_MAPITER=1,0,-1,0,-1,0,1,0,0"), scratch, "")
	req := schema.Request(s.files, c.Gen, c.Param)
	if len(c.ProtoOrd) > 0 {
		by := map[string]*descriptorpb.FileDescriptorProto{}
		for _, f := range req.ProtoFile {
			by[f.GetName()] = f
		}
		req.ProtoFile = nil
		for _, n := range c.ProtoOrd {
			req.ProtoFile = append(req.ProtoFile, by[n])
		}
	}
	p := pluginCtl
	env := baseEnv("VERIF_MAPITER=" + c.MapIter)
	if c.MapIter == "" {
		env = baseEnv("VERIF_MAPITER=1,0,-1,0,-1,0,1,0,0")
	}
	if c.Plain {
		p = plugin
		env = baseEnv()
	}
	dir, argv0 := scratch, ""
	for _, cf := range procConfigs(scratch) {
		if cf.name == c.Config {
			env, dir, argv0 = append(append([]string(nil), cf.env...), "VERIF_MAPITER=1,0,-1,0,-1,0,1,0,0"), cf.dir, cf.argv0
		}
	}
	differs := false
	for try := 0; try < 12 && !differs; try++ {
		ro := runPlugin(p, req, env, dir, argv0)
		if ro.errS != "" || ro.exit != 0 {
			differs = true
		}
		for n, content := range ro.files {
			if base.files[n] != content {
				differs = true
			}
		}
		if !c.Plain {
			break
		}
	}
	if differs {
		h.Violate("C13/replay/"+s.name, fmt.Sprintf("replayed case differs from the baseline: %+v", c), c)
	}
}
