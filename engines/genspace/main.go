// Engine "genspace": drives the plugin binary built from the working tree.
// C13: determinism / hermeticity under every map-iteration choice of the runtime, request
// permutations and process configurations. C12: totality over a schema grammar (see c12.go).
package main

import (
	"fmt"
	"os"

	"github.com/cosmos/cosmos-proto/internal/zzverif/hz"
)

func main() {
	h := hz.New()
	switch h.Prop {
	case "C13":
		runC13(h)
	case "C12":
		runC12(h)
	default:
		fmt.Fprintln(os.Stderr, "INTERNAL: engine genspace does not serve", h.Prop)
		os.Exit(2)
	}
	h.Finish()
}
