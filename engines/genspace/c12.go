package main

import "github.com/cosmos/cosmos-proto/internal/zzverif/hz"

func runC12(h *hz.H) { h.InternalError("C12 not built yet") }
