// gencorpus: builds schema sets, runs the working-tree plugin on them and writes the generated
// sources plus a manifest the orchestrator turns into overlay entries.
package main

import (
	"encoding/json"
	"flag"
	"fmt"
	"os"
	"path/filepath"
	"strings"

	"github.com/cosmos/cosmos-proto/internal/zzverif/schema"
	"google.golang.org/protobuf/proto"
	"google.golang.org/protobuf/types/descriptorpb"
)

type genFile struct {
	Pkg  string `json:"pkg"`  // Go import path
	Name string `json:"name"` // base file name
	Path string `json:"path"` // where it was written
}

type manifest struct {
	Files      []genFile         `json:"files"`
	Packages   []string          `json:"packages"`
	Requests   map[string]string `json:"requests"` // proto file name -> path of serialized FileDescriptorProto
	Errors     []string          `json:"errors"`
	Units      []unitResult      `json:"units,omitempty"`      // C12 corpus: one entry per request
	PkgLabel   map[string]string `json:"pkg_label,omitempty"`  // Go package -> schema label (attribution of compile errors)
	Violations []violation       `json:"violations,omitempty"` // C12: found while generating
	Extensions []extInfo         `json:"extensions,omitempty"` // extension fields declared by generated files (C19: E_ variables)
}

// extInfo names the Go variable protoc-gen-go's rules give an extension field (E_<CamelName>, prefixed with the
// enclosing message names for nested declarations).
type extInfo struct {
	Pkg      string `json:"pkg"`
	GoName   string `json:"go_name"`
	FullName string `json:"full_name"`
}

func goCamel(s string) string {
	var b []byte
	up := true
	for i := 0; i < len(s); i++ {
		c := s[i]
		switch {
		case c == '_':
			if i+1 < len(s) && s[i+1] >= 'a' && s[i+1] <= 'z' {
				up = true
			} else {
				b = append(b, '_')
			}
		case up && c >= 'a' && c <= 'z':
			b = append(b, c-'a'+'A')
			up = false
		default:
			b = append(b, c)
			up = false
		}
	}
	return string(b)
}

func extensionsOf(f *descriptorpb.FileDescriptorProto) []extInfo {
	pkg := f.GetOptions().GetGoPackage()
	if i := strings.Index(pkg, ";"); i >= 0 {
		pkg = pkg[:i]
	}
	var out []extInfo
	prefix := ""
	if f.GetPackage() != "" {
		prefix = f.GetPackage() + "."
	}
	for _, e := range f.GetExtension() {
		out = append(out, extInfo{pkg, "E_" + goCamel(e.GetName()), prefix + e.GetName()})
	}
	var rec func(ms []*descriptorpb.DescriptorProto, goPrefix, protoPrefix string)
	rec = func(ms []*descriptorpb.DescriptorProto, goPrefix, protoPrefix string) {
		for _, m := range ms {
			gp, pp := goPrefix+goCamel(m.GetName())+"_", protoPrefix+m.GetName()+"."
			for _, e := range m.GetExtension() {
				out = append(out, extInfo{pkg, "E_" + gp + goCamel(e.GetName()), pp + e.GetName()})
			}
			rec(m.GetNestedType(), gp, pp)
		}
	}
	rec(f.GetMessageType(), "", prefix)
	return out
}

type unitResult struct {
	ID, Label, Param, Expect string
	OK                       bool
	Files                    []string
}

type violation struct {
	Key  string      `json:"key"`
	What string      `json:"what"`
	Case interface{} `json:"case"`
}

func main() {
	plugin := flag.String("plugin", "", "plugin binary")
	out := flag.String("out", "", "output directory")
	sets := flag.String("sets", "mx", "comma separated schema sets: mx,mxall")
	flag.Parse()
	man := manifest{Requests: map[string]string{}}
	pkgs := map[string]bool{}
	for _, set := range strings.Split(*sets, ",") {
		var files []*descriptorpb.FileDescriptorProto
		if set == "corpus-quick" || set == "corpus-thorough" {
			runCorpus(&man, pkgs, *plugin, *out, set == "corpus-thorough")
			continue
		}
		switch set {
		case "mx":
			files = schema.MX()
		case "mxall":
			files = schema.MXAll()
		case "mxr":
			files = schema.MXR()
		default:
			fmt.Fprintln(os.Stderr, "unknown set", set)
			os.Exit(2)
		}
		if _, err := schema.Validate(files); err != nil {
			fmt.Fprintf(os.Stderr, "INTERNAL: schema set %s is not valid: %v\n", set, err)
			os.Exit(2)
		}
		var gen []string
		for _, f := range files {
			gen = append(gen, f.GetName())
		}
		res := schema.RunPlugin(*plugin, schema.Request(files, gen, ""), nil, "")
		if res.Err != nil || res.ExitCode != 0 || res.Resp.GetError() != "" {
			man.Errors = append(man.Errors, fmt.Sprintf("set %s: exit=%d err=%v response.error=%q stderr=%s", set, res.ExitCode, res.Err, res.Resp.GetError(), tail(res.Stderr)))
			continue
		}
		for _, f := range files {
			b, _ := proto.Marshal(f)
			p := filepath.Join(*out, "req_"+strings.ReplaceAll(f.GetName(), "/", "_")+".binpb")
			schema.MustWrite(p, b)
			man.Requests[f.GetName()] = p
			for _, g := range gen {
				if g == f.GetName() {
					man.Extensions = append(man.Extensions, extensionsOf(f)...)
				}
			}
		}
		for _, gf := range res.Resp.GetFile() {
			dir, base := filepath.Split(gf.GetName())
			pkg := strings.TrimSuffix(dir, "/")
			dst := filepath.Join(*out, "src", pkg)
			os.MkdirAll(dst, 0o755)
			p := filepath.Join(dst, base)
			schema.MustWrite(p, []byte(gf.GetContent()))
			man.Files = append(man.Files, genFile{Pkg: pkg, Name: base, Path: p})
			if !pkgs[pkg] {
				pkgs[pkg] = true
				man.Packages = append(man.Packages, pkg)
			}
		}
	}
	b, _ := json.MarshalIndent(man, "", " ")
	schema.MustWrite(filepath.Join(*out, "manifest.json"), b)
	if len(man.Errors) > 0 {
		fmt.Fprintln(os.Stderr, strings.Join(man.Errors, "\n"))
		os.Exit(1)
	}
	fmt.Printf("gencorpus: %d packages, %d files, %d units, %d violations while generating\n", len(man.Packages), len(man.Files), len(man.Units), len(man.Violations))
}

type c12case struct {
	Unit  string `json:"unit"`
	Label string `json:"label"`
	Param string `json:"parameter,omitempty"`
	Phase string `json:"phase"`
}

func runCorpus(man *manifest, pkgs map[string]bool, plugin, out string, thorough bool) {
	if man.PkgLabel == nil {
		man.PkgLabel = map[string]string{}
	}
	units := schema.Corpus(thorough)
	type res struct {
		u    schema.Unit
		r    schema.RunResult
		gen  []string
		verr error
	}
	results := make([]res, len(units))
	sem := make(chan struct{}, 16)
	done := make(chan int, len(units))
	run := func(u schema.Unit) res {
		gen := u.Gen
		if gen == nil {
			for _, f := range u.Files {
				gen = append(gen, f.GetName())
			}
		}
		if _, err := schema.Validate(u.Files); err != nil {
			return res{u: u, gen: gen, verr: err}
		}
		return res{u: u, gen: gen, r: schema.RunPlugin(plugin, schema.Request(u.Files, gen, u.Param), nil, "")}
	}
	for i := range units {
		go func(i int) {
			sem <- struct{}{}
			results[i] = run(units[i])
			<-sem
			done <- i
		}(i)
	}
	for range units {
		<-done
	}
	var handle func(r res)
	handle = func(r res) {
		u := r.u
		c := c12case{Unit: u.ID, Label: u.Label, Param: u.Param, Phase: "generate"}
		if r.verr != nil {
			man.Errors = append(man.Errors, fmt.Sprintf("INTERNAL: corpus unit %s is not a valid schema: %v", u.ID, r.verr))
			return
		}
		ur := unitResult{ID: u.ID, Label: u.Label, Param: u.Param, Expect: u.Expect}
		fail := func(oracle, what string) {
			man.Violations = append(man.Violations, violation{Key: "C12/" + oracle + "/" + u.ID, What: what, Case: c})
		}
		if r.r.Err != nil || r.r.ExitCode != 0 || r.r.Resp == nil {
			fail("plugin-crash", fmt.Sprintf("schema %q (%s): the plugin crashed or wrote no response: exit=%d err=%v stderr=%s", u.Label, u.ID, r.r.ExitCode, r.r.Err, tail(r.r.Stderr)))
			man.Units = append(man.Units, ur)
			return
		}
		if u.Expect == "error" {
			if r.r.Resp.GetError() == "" {
				fail("unservable-request-not-rejected", fmt.Sprintf("request with parameter %q must be answered with an error message; got %d files and no error", u.Param, len(r.r.Resp.GetFile())))
			} else if len(r.r.Resp.GetFile()) != 0 {
				fail("error-with-files", fmt.Sprintf("request with parameter %q answered with an error AND %d files", u.Param, len(r.r.Resp.GetFile())))
			} else {
				ur.OK = true
			}
			man.Units = append(man.Units, ur)
			return
		}
		if u.Expect == "any" {
			ur.OK = true
			man.Units = append(man.Units, ur)
			return
		}
		if e := r.r.Resp.GetError(); e != "" {
			if len(u.Parts) > 0 {
				// attribute: re-run every message of the group on its own
				for _, p := range u.Parts {
					handle(run(p()))
				}
				return
			}
			first := e
			if i := strings.Index(first, "\n"); i > 0 {
				first = first[:i]
			}
			if len(first) > 300 {
				first = first[:300]
			}
			fail("generator-error", fmt.Sprintf("valid proto3 schema %q (%s) is answered with an error instead of sources: %s", u.Label, u.ID, first))
			man.Units = append(man.Units, ur)
			return
		}
		// expected output file set
		want := map[string]bool{}
		wl := u.Want
		if wl == nil {
			wl = r.gen
		}
		for _, n := range wl {
			want[strings.TrimSuffix(n, ".proto")+".pulsar.go"] = true
		}
		got := map[string]bool{}
		for _, gf := range r.r.Resp.GetFile() {
			// paths=import (default): <go import path>/<base>.pulsar.go ; source_relative: <proto dir>/<base>.pulsar.go
			base := filepath.Base(gf.GetName())
			matched := false
			for w := range want {
				if filepath.Base(w) == base {
					matched = true
					got[w] = true
				}
			}
			if !matched {
				fail("unexpected-output-file", fmt.Sprintf("schema %q (%s): output file %s was generated although it is not expected (unrequested, proto2, or misnamed)", u.Label, u.ID, gf.GetName()))
			}
		}
		for w := range want {
			if !got[w] {
				fail("missing-output-file", fmt.Sprintf("schema %q (%s): no output for requested proto3 file %s", u.Label, u.ID, w))
			}
		}
		// write sources; package path is derived from go_package, independent of the paths= parameter
		for _, f := range u.Files {
			b, _ := proto.Marshal(f)
			p := filepath.Join(out, "req_"+strings.ReplaceAll(f.GetName(), "/", "_")+".binpb")
			schema.MustWrite(p, b)
			man.Requests[f.GetName()] = p
			if want[strings.TrimSuffix(f.GetName(), ".proto")+".pulsar.go"] {
				man.Extensions = append(man.Extensions, extensionsOf(f)...)
			}
		}
		for _, gf := range r.r.Resp.GetFile() {
			base := filepath.Base(gf.GetName())
			pkg := ""
			for _, f := range u.Files {
				if strings.TrimSuffix(filepath.Base(f.GetName()), ".proto")+".pulsar.go" == base {
					pkg = f.GetOptions().GetGoPackage()
					if pkg == "" && strings.HasPrefix(u.Param, "M") {
						pkg = u.Param[strings.Index(u.Param, "=")+1:]
					}
				}
			}
			if i := strings.Index(pkg, ";"); i >= 0 {
				pkg = pkg[:i]
			}
			if pkg == "" || !strings.HasPrefix(pkg, schema.GenRoot) || u.NoCompile {
				continue
			}
			dst := filepath.Join(out, "src", pkg)
			os.MkdirAll(dst, 0o755)
			p := filepath.Join(dst, base)
			if _, err := os.Stat(p); err == nil {
				continue // same file generated by another unit (shared dependency): identical by C13
			}
			schema.MustWrite(p, []byte(gf.GetContent()))
			man.Files = append(man.Files, genFile{Pkg: pkg, Name: base, Path: p})
			if !pkgs[pkg] {
				pkgs[pkg] = true
				man.Packages = append(man.Packages, pkg)
			}
			man.PkgLabel[pkg] = u.ID + ": " + u.Label
			ur.Files = append(ur.Files, gf.GetName())
		}
		ur.OK = true
		man.Units = append(man.Units, ur)
	}
	for _, r := range results {
		handle(r)
	}
}

func tail(s string) string {
	if len(s) > 2000 {
		return s[len(s)-2000:]
	}
	return s
}
