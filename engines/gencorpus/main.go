// gencorpus: builds schema sets, runs the working-tree plugin on them and writes the generated
// sources plus a manifest the orchestrator turns into overlay entries.
package main

import (
	"encoding/json"
	"flag"
	"fmt"
	"os"
	"path/filepath"
	"strings"

	"github.com/cosmos/cosmos-proto/internal/zzverif/schema"
	"google.golang.org/protobuf/proto"
	"google.golang.org/protobuf/types/descriptorpb"
)

type genFile struct {
	Pkg  string `json:"pkg"`  // Go import path
	Name string `json:"name"` // base file name
	Path string `json:"path"` // where it was written
}

type manifest struct {
	Files    []genFile         `json:"files"`
	Packages []string          `json:"packages"`
	Requests map[string]string `json:"requests"` // proto file name -> path of serialized FileDescriptorProto
	Errors   []string          `json:"errors"`
}

func main() {
	plugin := flag.String("plugin", "", "plugin binary")
	out := flag.String("out", "", "output directory")
	sets := flag.String("sets", "mx", "comma separated schema sets: mx,mxall")
	flag.Parse()
	man := manifest{Requests: map[string]string{}}
	pkgs := map[string]bool{}
	for _, set := range strings.Split(*sets, ",") {
		var files []*descriptorpb.FileDescriptorProto
		switch set {
		case "mx":
			files = schema.MX()
		case "mxall":
			files = schema.MXAll()
		default:
			fmt.Fprintln(os.Stderr, "unknown set", set)
			os.Exit(2)
		}
		if _, err := schema.Validate(files); err != nil {
			fmt.Fprintf(os.Stderr, "INTERNAL: schema set %s is not valid: %v\n", set, err)
			os.Exit(2)
		}
		var gen []string
		for _, f := range files {
			gen = append(gen, f.GetName())
		}
		res := schema.RunPlugin(*plugin, schema.Request(files, gen, ""), nil, "")
		if res.Err != nil || res.ExitCode != 0 || res.Resp.GetError() != "" {
			man.Errors = append(man.Errors, fmt.Sprintf("set %s: exit=%d err=%v response.error=%q stderr=%s", set, res.ExitCode, res.Err, res.Resp.GetError(), tail(res.Stderr)))
			continue
		}
		for _, f := range files {
			b, _ := proto.Marshal(f)
			p := filepath.Join(*out, "req_"+strings.ReplaceAll(f.GetName(), "/", "_")+".binpb")
			schema.MustWrite(p, b)
			man.Requests[f.GetName()] = p
		}
		for _, gf := range res.Resp.GetFile() {
			dir, base := filepath.Split(gf.GetName())
			pkg := strings.TrimSuffix(dir, "/")
			dst := filepath.Join(*out, "src", pkg)
			os.MkdirAll(dst, 0o755)
			p := filepath.Join(dst, base)
			schema.MustWrite(p, []byte(gf.GetContent()))
			man.Files = append(man.Files, genFile{Pkg: pkg, Name: base, Path: p})
			if !pkgs[pkg] {
				pkgs[pkg] = true
				man.Packages = append(man.Packages, pkg)
			}
		}
	}
	b, _ := json.MarshalIndent(man, "", " ")
	schema.MustWrite(filepath.Join(*out, "manifest.json"), b)
	if len(man.Errors) > 0 {
		fmt.Fprintln(os.Stderr, strings.Join(man.Errors, "\n"))
		os.Exit(1)
	}
}

func tail(s string) string {
	if len(s) > 2000 {
		return s[len(s)-2000:]
	}
	return s
}
