package schema

import (
	"fmt"
	"google.golang.org/protobuf/encoding/protowire"

	cosmos_proto "github.com/cosmos/cosmos-proto"
	"google.golang.org/protobuf/proto"
	"google.golang.org/protobuf/types/descriptorpb"
)

// GenRoot is the Go import path prefix of every freshly generated package.
const GenRoot = "github.com/cosmos/cosmos-proto/internal/zzverif/gen/"

const (
	anyT = ".google.protobuf.Any"
	tsT  = ".google.protobuf.Timestamp"
	durT = ".google.protobuf.Duration"
	fmT  = ".google.protobuf.FieldMask"
)

// TagBoundaries are the field numbers at which the tag grows by a byte (1..5 bytes).
var TagBoundaries = []int32{15, 16, 2047, 2048, 262143, 262144, 33554431, 33554432, 536870911}

// MX builds the matrix schema: mxo/other.proto (another Go package), mx/mx2.proto and mx/mx.proto (same Go package).
func MX() []*descriptorpb.FileDescriptorProto {
	// --- other package
	o := NewFile("mxo/other.proto", "mxo", GenRoot+"mxo;mxopkg") // go_package in its path;name form
	oe := o.Enum("OtherEnum", "OTHER_ZERO", 0, "OTHER_ONE", 1, "OTHER_NEG", -2, "OTHER_MAX", 2147483647, "OTHER_MIN", -2147483648)
	other := o.Msg("Other")
	other.Field("v", 1, S(Int32))
	other.Field("s", 2, S(String))
	other.Field("e", 3, E(oe))
	other.Map("om", 4, String, S(Int32)) // a map below a message of ANOTHER Go package (options must be carried across)
	other.Rep("ol", 5, S(Sint64))

	// --- second file of package mx
	f2 := NewFile("mx/mx2.proto", "mx", GenRoot+"mx", "mxo/other.proto", "google/protobuf/descriptor.proto")
	color := f2.Enum("Color", "COLOR_ZERO", 0, "RED", 1, "BLUE", 5, "NEGATIVE", -3)
	// numbers 0..2 without holes but declared out of number order; an enum with aliases
	dense := f2.Enum("Dense", "DENSE_ZERO", 0, "DENSE_TWO", 2, "DENSE_ONE", 1)
	alias := f2.Enum("Alias", "ALIAS_ZERO", 0, "ALIAS_ALSO_ZERO", 0, "ALIAS_ONE", 1, "ALIAS_UNO", 1, "ALIAS_TWO", 2)
	f2.P.EnumType[len(f2.P.EnumType)-1].Options = &descriptorpb.EnumOptions{AllowAlias: proto.Bool(true)}
	ce := f2.P.EnumType[len(f2.P.EnumType)-3]
	ce.ReservedRange = []*descriptorpb.EnumDescriptorProto_EnumReservedRange{{Start: proto.Int32(2), End: proto.Int32(4)}, {Start: proto.Int32(-10), End: proto.Int32(-10)}}
	ce.ReservedName = []string{"GREEN"}
	sec := f2.Msg("Sec")
	sec.Field("z", 1, S(Sint32))
	sec.Rep("zs", 2, S(Sint64))

	// extension fields (custom options): two extendees in non-contiguous blocks, a message-typed and a repeated one, one
	// declared inside a message; used in this file's own options and in mx.proto's
	ext := func(name string, num int32, ty descriptorpb.FieldDescriptorProto_Type, typeName, extendee string, rep bool) *descriptorpb.FieldDescriptorProto {
		e := &descriptorpb.FieldDescriptorProto{Name: proto.String(name), Number: proto.Int32(num), Type: ty.Enum(), Extendee: proto.String(extendee),
			Label: descriptorpb.FieldDescriptorProto_LABEL_OPTIONAL.Enum(), JsonName: proto.String(JSONName(name))}
		if rep {
			e.Label = descriptorpb.FieldDescriptorProto_LABEL_REPEATED.Enum()
		}
		if typeName != "" {
			e.TypeName = proto.String(typeName)
		}
		return e
	}
	const msgOpts, fldOpts, enumOpts = ".google.protobuf.MessageOptions", ".google.protobuf.FieldOptions", ".google.protobuf.EnumOptions"
	f2.P.Extension = append(f2.P.Extension,
		ext("m_a", 51001, descriptorpb.FieldDescriptorProto_TYPE_STRING, "", msgOpts, false),
		ext("f_a", 51002, descriptorpb.FieldDescriptorProto_TYPE_INT32, "", fldOpts, false),
		ext("m_b", 51003, descriptorpb.FieldDescriptorProto_TYPE_STRING, "", msgOpts, false),
		ext("m_sec", 51004, descriptorpb.FieldDescriptorProto_TYPE_MESSAGE, sec.Full(), msgOpts, false),
		ext("f_b", 51005, descriptorpb.FieldDescriptorProto_TYPE_SINT64, "", fldOpts, true),
		ext("e_a", 51006, descriptorpb.FieldDescriptorProto_TYPE_BOOL, "", enumOpts, false),
		ext("m_c", 51007, descriptorpb.FieldDescriptorProto_TYPE_ENUM, color, msgOpts, false))
	// the first extension declared inside Sec is the first one for its extendee, like m_a at file level (both have index 0
	// within their parent: anything that orders extendees by that index alone has a tie to break)
	sec.P.Extension = append(sec.P.Extension,
		ext("n_o", 51009, descriptorpb.FieldDescriptorProto_TYPE_INT32, "", ".google.protobuf.OneofOptions", false),
		ext("n_a", 51008, descriptorpb.FieldDescriptorProto_TYPE_BYTES, "", fldOpts, false))
	rawOpt := func(m proto.Message, recs ...[]byte) {
		var b []byte
		for _, r := range recs {
			b = append(b, r...)
		}
		m.ProtoReflect().SetUnknown(b)
	}
	strRec := func(num int32, v string) []byte {
		return protowire.AppendString(protowire.AppendTag(nil, protowire.Number(num), protowire.BytesType), v)
	}
	varRec := func(num int32, v uint64) []byte {
		return protowire.AppendVarint(protowire.AppendTag(nil, protowire.Number(num), protowire.VarintType), v)
	}
	sec.P.Options = &descriptorpb.MessageOptions{}
	rawOpt(sec.P.Options, strRec(51001, "first"), strRec(51003, "second"), varRec(51007, 5))
	sec.P.Field[0].Options = &descriptorpb.FieldOptions{}
	rawOpt(sec.P.Field[0].Options, varRec(51002, 7), strRec(51008, "nested"))

	// --- main file
	f := NewFile("mx/mx.proto", "mx", GenRoot+"mx", "mxo/other.proto", "mx/mx2.proto",
		"google/protobuf/any.proto", "google/protobuf/timestamp.proto", "google/protobuf/duration.proto",
		"google/protobuf/field_mask.proto", "cosmos_proto/cosmos.proto",
		"google/protobuf/struct.proto", "google/protobuf/empty.proto", "google/protobuf/wrappers.proto")
	f.P.Options.ProtoReflect().Set(cosmos_proto.E_FileAddedIn.TypeDescriptor(), cosmos_proto.E_FileAddedIn.ValueOf("verif 1.0"))

	leaf := f.Msg("Leaf")
	leaf.Field("a", 1, S(Int32))
	leaf.Field("s", 2, S(String))
	leaf.Field("child", 3, M(leaf.Full()))
	leaf.Rep("kids", 4, M(leaf.Full()))
	leaf.Map("m", 5, String, M(leaf.Full()))
	leaf.OneofField("o", "ol", 6, M(leaf.Full()))
	leaf.OneofField("o", "oi", 7, S(Int32))
	leaf.Field("b", 8, S(Bytes))

	chain := f.Msg("Chain") // recursion with branching factor 1
	chain.Field("next", 1, M(chain.Full()))
	chain.Field("v", 2, S(Int32))

	chainl := f.Msg("ChainL") // the same, carrying a list and a map at every level
	chainl.Field("next", 1, M(chainl.Full()))
	chainl.Rep("xs", 2, S(Int32))
	chainl.Rep("ss", 3, S(String))
	// reserved numbers and names are part of the schema the generated package must register
	chainl.P.ReservedRange = []*descriptorpb.DescriptorProto_ReservedRange{{Start: proto.Int32(10), End: proto.Int32(20)}, {Start: proto.Int32(100), End: proto.Int32(101)}}
	chainl.P.ReservedName = []string{"old_name", "older_name"}

	sing := f.Msg("Sing")
	proto.SetExtension(ensureMsgOpts(sing.P), cosmos_proto.E_ImplementsInterface, []string{"verif.Iface"})
	for i, k := range Scalars[:13] {
		sing.Field("f_"+KindName(k), int32(i+1), S(k))
	}
	sing.Field("f_sec", 14, M(sec.Full()))
	fs := sing.Field("f_string", 15, S(String))
	fs.Options = &descriptorpb.FieldOptions{}
	proto.SetExtension(fs.Options, cosmos_proto.E_Scalar, "verif.Str")
	sing.Field("f_bytes", 16, S(Bytes))
	sing.Field("f_enum", 2047, E(color))
	sing.Field("f_leaf", 2048, M(leaf.Full()))
	sing.Field("f_other", 262143, M(other.Full()))
	sing.Field("f_other_enum", 262144, E(oe))
	sing.Field("f_any", 33554431, M(anyT))
	sing.Field("f_ts", 33554432, M(tsT))
	sing.Field("f_dur", 536870911, M(durT))
	sing.Field("f_mask", 17, M(fmT))

	wide := f.Msg("Wide")
	wide.Field("w15", 15, S(Fixed32))
	wide.Field("w16", 16, S(Double))
	wide.Field("w2047", 2047, S(Sint64))
	wide.Rep("w2048", 2048, S(Int32))
	wide.Rep("w262143", 262143, S(String))
	wide.Map("w262144", 262144, Int32, S(String))
	wide.Field("w33554431", 33554431, S(Fixed64))
	wide.Field("w33554432", 33554432, S(Float))
	wide.Field("w536870911", 536870911, S(Bytes))
	wide.RepPacked("w300", 300, S(Fixed64), false)
	wide.OneofField("wo", "wo_u32", 268435455, S(Uint32))
	wide.OneofField("wo", "wo_str", 268435456, S(String))
	wide.Rep("w5000000", 5000000, S(Sfixed32))

	rep := f.Msg("Rep")
	for i, k := range Scalars {
		rep.Rep("r_"+KindName(k), int32(i+1), S(k))
	}
	rep.Rep("r_enum", 16, E(color))
	rep.Rep("r_leaf", 17, M(leaf.Full()))
	rep.Rep("r_other", 18, M(other.Full()))
	rep.Rep("r_other_enum", 19, E(oe))
	rep.Rep("r_ts", 20, M(tsT))
	rep.RepPacked("r_int64_explicit", 21, S(Int64), true)

	ru := f.Msg("RepUnpacked")
	n := int32(1)
	for _, k := range Scalars {
		if k == String || k == Bytes {
			continue
		}
		ru.RepPacked("u_"+KindName(k), n, S(k), false)
		n++
	}
	ru.RepPacked("u_enum", n, E(color), false)

	one := f.Msg("One")
	one.DeclareOneof("zz_first")
	one.DeclareOneof("aa_second")
	one.DeclareOneof("third")
	one.Field("plain_a", 10, S(Int32))
	for i, k := range []T{Int32, Sint32, Uint32, Int64, Sint64, Uint64} {
		one.OneofField("zz_first", "z_"+KindName(k), int32(30+i), S(k))
	}
	one.OneofField("zz_first", "z_leaf", 36, M(leaf.Full()))
	one.Field("plain_s", 1, S(String))
	for i, k := range []T{Sfixed32, Fixed32, Float, Sfixed64, Fixed64, Double, Bool, String} {
		one.OneofField("aa_second", "s_"+KindName(k), int32(2+i), S(k))
	}
	one.Rep("plain_l", 50, S(Int32))
	one.OneofField("third", "t_bytes", 100, S(Bytes))
	one.OneofField("third", "t_enum", 101, E(color))
	one.OneofField("third", "t_other", 102, M(other.Full()))
	one.OneofField("third", "t_any", 103, M(anyT))
	one.OneofField("third", "t_other_enum", 2048, E(oe))
	one.OneofField("third", "t_ts", 20, M(tsT))
	one.Field("plain_m", 40, M(leaf.Full()))

	maps := f.Msg("Maps")
	vals := []Ty{}
	for _, k := range Scalars {
		vals = append(vals, S(k))
	}
	vals = append(vals, E(color), M(leaf.Full()), M(other.Full()), E(oe), M(tsT))
	for i, v := range vals {
		k := KeyKinds[i%len(KeyKinds)]
		maps.Map(fmt.Sprintf("m%02d_%s_%s", i+1, KindName(k), valName(v)), int32(i+1), k, v)
	}

	nest := f.Msg("Nest")
	l1 := nest.Nested("L1")
	l2 := l1.Nested("L2")
	e2 := l2.NestedEnum("E2", "E2_ZERO", 0, "E2_A", 7)
	l2.Field("e", 1, E(e2))
	l2.Field("t", 2, S(String))
	e1 := l1.NestedEnum("E1", "E1_ZERO", 0, "E1_A", 1, "E1_B", 2)
	l1.Field("l2", 1, M(l2.Full()))
	l1.Rep("l2s", 2, M(l2.Full()))
	l1.Field("e1", 3, E(e1))
	nest.Field("l1", 1, M(l1.Full()))
	nest.Map("m", 2, Int32, M(l2.Full()))
	nest.Field("deep_enum", 3, E(e2))
	nest.OneofField("o", "ol2", 4, M(l2.Full()))
	nest.OneofField("o", "oe", 5, E(e1))
	nest.Rep("e1s", 6, E(e1))

	// a list whose elements hold a chain of singular messages: the depth of a message is its nesting depth, whatever its
	// index in a list (C18: ten elements fit rapidproto's list bound, the chain stays well inside its depth limit)
	late := f.Msg("Late")
	lateItem := late.Nested("Item")
	lc1 := lateItem.Nested("C1")
	lc2 := lc1.Nested("C2")
	lc3 := lc2.Nested("C3")
	lc3.Field("v", 1, S(Int32))
	lc2.Field("c", 1, M(lc3.Full()))
	lc1.Field("c", 1, M(lc2.Full()))
	lateItem.Field("c", 1, M(lc1.Full()))
	lateItem.Rep("subs", 2, M(lc2.Full()))
	late.Rep("items", 1, M(lateItem.Full()))

	// a later sibling with nested declarations of its own (the flattened declaration order matters)
	nest2 := f.Msg("Nest2")
	q := nest2.Nested("Q")
	shape := q.NestedEnum("Shape", "SHAPE_ZERO", 0, "SQUARE", 1, "CIRCLE", 4)
	qr := q.Nested("R")
	qr.Field("s", 1, E(shape))
	q.Field("shape", 1, E(shape))
	q.Field("r", 2, M(qr.Full()))
	q.Field("back", 3, M(l2.Full()))
	nest2.Field("q", 1, M(q.Full()))
	nest2.Rep("shapes", 2, E(shape))
	nest2.Field("e2", 3, E(e2))

	// well-known types in every position (used by C18: generators special-case them)
	wkt := f.Msg("Wkt")
	wkt.Map("mask_by_flag", 1, Bool, M(fmT))
	wkt.Map("dur_by_name", 2, String, M(durT))
	wkt.Rep("masks", 3, M(fmT))
	wkt.OneofField("w", "w_mask", 4, M(fmT))
	wkt.OneofField("w", "w_ts", 5, M(tsT))
	wkt.Map("any_by_id", 6, Int32, M(anyT))
	wkt.Map("ts_by_id", 7, Int32, M(tsT))
	wkt.Rep("durs", 8, M(durT))
	wkt.Map("color_by_flag", 9, Bool, E(color))

	wkt2 := f.Msg("Wkt2") // the remaining well-known types: recursive Struct/Value/ListValue, Empty, wrappers
	wkt2.Field("st", 1, M(".google.protobuf.Struct"))
	wkt2.Field("em", 2, M(".google.protobuf.Empty"))
	wkt2.Field("bv", 3, M(".google.protobuf.BoolValue"))
	wkt2.Field("sv", 4, M(".google.protobuf.StringValue"))
	wkt2.Rep("vals", 5, M(".google.protobuf.Value"))
	wkt2.Map("i64", 6, String, M(".google.protobuf.Int64Value"))
	wkt2.OneofField("w2", "w_lv", 7, M(".google.protobuf.ListValue"))
	wkt2.OneofField("w2", "w_by", 8, M(".google.protobuf.BytesValue"))

	enums := f.Msg("Enums") // enums whose declaration order differs from their number order / with aliases
	enums.Field("d", 1, E(dense))
	enums.Rep("ds", 2, E(dense))
	enums.Field("a", 3, E(alias))
	enums.Map("da", 4, Int32, E(alias))
	enums.OneofField("oe", "od", 5, E(dense))
	// declarations sharing a SHORT name under different parents: enums Kind with different number sets, messages Item
	pp := enums.Nested("P")
	pkind := pp.NestedEnum("Kind", "KIND_ZERO", 0, "KIND_ONE", 1)
	pitem := pp.Nested("Item")
	pitem.Field("a", 1, S(Int32))
	qq := enums.Nested("Q")
	qkind := qq.NestedEnum("Kind", "KIND_ZERO", 0, "KIND_HUNDRED", 100)
	qitem := qq.Nested("Item")
	qitem.Field("b", 1, S(String))
	enums.Field("pk", 6, E(pkind))
	enums.Rep("qks", 7, E(qkind))
	enums.Field("pi", 8, M(pitem.Full()))
	enums.Field("qi", 9, M(qitem.Full()))
	enums.Map("qm", 10, Int32, E(qkind))

	anys := f.Msg("Anys")                      // several Any values in one message, early in the draw order
	hinted := anys.Field("hinted", 4, M(anyT)) // declared first: drawn first
	hinted.Options = &descriptorpb.FieldOptions{}
	proto.SetExtension(hinted.Options, cosmos_proto.E_AcceptsInterface, "verif.Iface")
	anys.Rep("items", 1, M(anyT))
	anys.Map("by_id", 2, Int32, M(anyT))
	anys.Field("one", 3, M(anyT))

	// a user message whose short name equals a synthesized map-entry name elsewhere in the file (Wkt.color_by_flag)
	cbe := f.Msg("ColorByFlagEntry")
	cbe.Field("x", 1, S(Int32))
	cbe.Field("value", 2, S(String))

	ops := f.Msg("Ops")
	ops.Field("i", 1, S(Int32))
	ops.Field("s", 2, S(String))
	ops.Field("b", 3, S(Bytes))
	ops.Field("d", 4, S(Double))
	ops.Field("e", 5, E(color))
	ops.Field("l", 6, M(leaf.Full()))
	ops.Rep("ri", 7, S(Int32))
	ops.Rep("rl", 8, M(leaf.Full()))
	ops.Map("msi", 9, String, S(Int32))
	ops.Map("mil", 10, Int32, M(leaf.Full()))
	ops.OneofField("o", "oi", 11, S(Int32))
	ops.OneofField("o", "os", 12, S(String))
	ops.OneofField("o", "ol", 13, M(leaf.Full()))
	ops.OneofField("o", "ob", 14, S(Bytes))

	// services: several methods whose request and response types all differ (own file, second file, other package,
	// well-known type), streaming flags in every combination; a second service after it
	mth := func(name, in, out string, cs, ss bool) *descriptorpb.MethodDescriptorProto {
		m := &descriptorpb.MethodDescriptorProto{Name: proto.String(name), InputType: proto.String(in), OutputType: proto.String(out)}
		if cs {
			m.ClientStreaming = proto.Bool(true)
		}
		if ss {
			m.ServerStreaming = proto.Bool(true)
		}
		return m
	}
	f.P.Service = append(f.P.Service,
		&descriptorpb.ServiceDescriptorProto{Name: proto.String("Svc"), Method: []*descriptorpb.MethodDescriptorProto{
			mth("One", leaf.Full(), chain.Full(), false, false),
			mth("Two", sing.Full(), wide.Full(), false, true),
			mth("Three", sec.Full(), other.Full(), true, false),
			mth("Four", ".google.protobuf.Empty", ops.Full(), true, true),
		}},
		&descriptorpb.ServiceDescriptorProto{Name: proto.String("Svc2"), Method: []*descriptorpb.MethodDescriptorProto{
			mth("Only", ops.Full(), leaf.Full(), false, false),
		}})
	f2.P.Service = append(f2.P.Service,
		&descriptorpb.ServiceDescriptorProto{Name: proto.String("SecSvc"), Method: []*descriptorpb.MethodDescriptorProto{
			mth("A", sec.Full(), sec.Full(), false, false),
			mth("B", other.Full(), sec.Full(), false, false),
		}})

	return []*descriptorpb.FileDescriptorProto{o.P, f2.P, f.P}
}

func ensureMsgOpts(m *descriptorpb.DescriptorProto) *descriptorpb.MessageOptions {
	if m.Options == nil {
		m.Options = &descriptorpb.MessageOptions{}
	}
	return m.Options
}

func valName(v Ty) string {
	if v.Name == "" {
		return KindName(v.K)
	}
	s := v.Name
	for i := len(s) - 1; i >= 0; i-- {
		if s[i] == '.' {
			s = s[i+1:]
			break
		}
	}
	out := []byte{}
	for i := 0; i < len(s); i++ {
		c := s[i]
		if 'A' <= c && c <= 'Z' {
			c += 32
		}
		out = append(out, c)
	}
	return string(out)
}

// MXR builds package mxr: a proto3 message that reaches a proto2 message with REQUIRED fields
// (google.protobuf.UninterpretedOption.NamePart) in every position. Used by C10 only: values with an unset required
// field are legitimately rejected by Marshal, which the other value-space oracles do not expect.
func MXR() []*descriptorpb.FileDescriptorProto {
	f := NewFile("mxr/req.proto", "mxr", GenRoot+"mxr", "google/protobuf/descriptor.proto")
	np := ".google.protobuf.UninterpretedOption.NamePart"
	r := f.Msg("Req")
	r.Field("np", 1, M(np))
	r.Rep("nps", 2, M(np))
	r.Map("by", 3, String, M(np))
	r.OneofField("o", "onp", 4, M(np))
	r.OneofField("o", "os", 5, S(String))
	r.Field("child", 6, M(r.Full()))
	r.Field("plain", 7, S(Int32))
	return []*descriptorpb.FileDescriptorProto{f.P}
}

// MXAll builds package mxall: one message with all 12 x 17 map key/value kind pairs (thorough tier).
func MXAll() []*descriptorpb.FileDescriptorProto {
	f := NewFile("mxall/mxall.proto", "mxall", GenRoot+"mxall")
	en := f.Enum("En", "EN_ZERO", 0, "EN_ONE", 1, "EN_NEG", -1)
	v := f.Msg("V")
	v.Field("x", 1, S(Int32))
	v.Field("s", 2, S(String))
	all := f.Msg("MapsAll")
	vals := []Ty{}
	for _, k := range Scalars {
		vals = append(vals, S(k))
	}
	vals = append(vals, E(en), M(v.Full()))
	n := int32(1)
	for _, k := range KeyKinds {
		for _, val := range vals {
			all.Map(fmt.Sprintf("m_%s_%s", KindName(k), valName(val)), n, k, val)
			n++
		}
	}
	return []*descriptorpb.FileDescriptorProto{f.P}
}
