// Package schema builds proto3 FileDescriptorProtos programmatically (there is no protoc in the
// sandbox), wraps them into CodeGeneratorRequests and runs the plugin binary built from the working tree.
package schema

import (
	"bytes"
	"fmt"
	"os"
	"os/exec"
	"sort"
	"strings"

	"google.golang.org/protobuf/proto"
	"google.golang.org/protobuf/reflect/protodesc"
	"google.golang.org/protobuf/reflect/protoreflect"
	"google.golang.org/protobuf/reflect/protoregistry"
	"google.golang.org/protobuf/types/descriptorpb"
	"google.golang.org/protobuf/types/pluginpb"

	_ "github.com/cosmos/cosmos-proto" // registers cosmos_proto/cosmos.proto
	_ "google.golang.org/protobuf/types/known/anypb"
	_ "google.golang.org/protobuf/types/known/durationpb"
	_ "google.golang.org/protobuf/types/known/emptypb"
	_ "google.golang.org/protobuf/types/known/fieldmaskpb"
	_ "google.golang.org/protobuf/types/known/structpb"
	_ "google.golang.org/protobuf/types/known/timestamppb"
	_ "google.golang.org/protobuf/types/known/wrapperspb"
)

type T = descriptorpb.FieldDescriptorProto_Type

const (
	Double   = descriptorpb.FieldDescriptorProto_TYPE_DOUBLE
	Float    = descriptorpb.FieldDescriptorProto_TYPE_FLOAT
	Int64    = descriptorpb.FieldDescriptorProto_TYPE_INT64
	Uint64   = descriptorpb.FieldDescriptorProto_TYPE_UINT64
	Int32    = descriptorpb.FieldDescriptorProto_TYPE_INT32
	Fixed64  = descriptorpb.FieldDescriptorProto_TYPE_FIXED64
	Fixed32  = descriptorpb.FieldDescriptorProto_TYPE_FIXED32
	Bool     = descriptorpb.FieldDescriptorProto_TYPE_BOOL
	String   = descriptorpb.FieldDescriptorProto_TYPE_STRING
	Message  = descriptorpb.FieldDescriptorProto_TYPE_MESSAGE
	Bytes    = descriptorpb.FieldDescriptorProto_TYPE_BYTES
	Uint32   = descriptorpb.FieldDescriptorProto_TYPE_UINT32
	Enum     = descriptorpb.FieldDescriptorProto_TYPE_ENUM
	Sfixed32 = descriptorpb.FieldDescriptorProto_TYPE_SFIXED32
	Sfixed64 = descriptorpb.FieldDescriptorProto_TYPE_SFIXED64
	Sint32   = descriptorpb.FieldDescriptorProto_TYPE_SINT32
	Sint64   = descriptorpb.FieldDescriptorProto_TYPE_SINT64
)

// Scalars lists the 15 scalar kinds in a fixed order.
var Scalars = []T{Int32, Sint32, Uint32, Int64, Sint64, Uint64, Sfixed32, Fixed32, Float, Sfixed64, Fixed64, Double, Bool, String, Bytes}

// KeyKinds are the 12 kinds allowed as map keys.
var KeyKinds = []T{Int32, Sint32, Uint32, Int64, Sint64, Uint64, Sfixed32, Fixed32, Sfixed64, Fixed64, Bool, String}

func KindName(t T) string { return strings.ToLower(strings.TrimPrefix(t.String(), "TYPE_")) }

// Ty is a field type: a scalar kind, or Message/Enum with a fully-qualified type name (".pkg.Name").
type Ty struct {
	K    T
	Name string
}

func S(k T) Ty         { return Ty{K: k} }
func M(name string) Ty { return Ty{K: Message, Name: name} }
func E(name string) Ty { return Ty{K: Enum, Name: name} }

type File struct {
	P *descriptorpb.FileDescriptorProto
}

type Msg struct {
	P      *descriptorpb.DescriptorProto
	full   string // ".pkg.Outer.Name"
	oneofs map[string]int32
}

func NewFile(name, pkg, goPkg string, deps ...string) *File {
	return &File{P: &descriptorpb.FileDescriptorProto{
		Name:       proto.String(name),
		Package:    proto.String(pkg),
		Syntax:     proto.String("proto3"),
		Dependency: deps,
		Options:    &descriptorpb.FileOptions{GoPackage: proto.String(goPkg)},
	}}
}

func (f *File) Msg(name string) *Msg {
	m := &Msg{P: &descriptorpb.DescriptorProto{Name: proto.String(name)}, full: "." + f.P.GetPackage() + "." + name, oneofs: map[string]int32{}}
	f.P.MessageType = append(f.P.MessageType, m.P)
	return m
}

func (f *File) Enum(name string, values ...interface{}) string {
	f.P.EnumType = append(f.P.EnumType, mkEnum(name, values))
	return "." + f.P.GetPackage() + "." + name
}

func mkEnum(name string, values []interface{}) *descriptorpb.EnumDescriptorProto {
	e := &descriptorpb.EnumDescriptorProto{Name: proto.String(name)}
	for i := 0; i < len(values); i += 2 {
		e.Value = append(e.Value, &descriptorpb.EnumValueDescriptorProto{Name: proto.String(values[i].(string)), Number: proto.Int32(int32(values[i+1].(int)))})
	}
	return e
}

func (m *Msg) Full() string { return m.full }

func (m *Msg) Nested(name string) *Msg {
	n := &Msg{P: &descriptorpb.DescriptorProto{Name: proto.String(name)}, full: m.full + "." + name, oneofs: map[string]int32{}}
	m.P.NestedType = append(m.P.NestedType, n.P)
	return n
}

func (m *Msg) NestedEnum(name string, values ...interface{}) string {
	m.P.EnumType = append(m.P.EnumType, mkEnum(name, values))
	return m.full + "." + name
}

func JSONName(s string) string {
	var b []byte
	up := false
	for i := 0; i < len(s); i++ {
		c := s[i]
		if c == '_' {
			up = true
			continue
		}
		if up && 'a' <= c && c <= 'z' {
			c -= 32
		}
		up = false
		b = append(b, c)
	}
	return string(b)
}

func camel(s string) string {
	// protoc's ToCamelCase(name, lower_first=false) used for map entry names
	var b []byte
	up := true
	for i := 0; i < len(s); i++ {
		c := s[i]
		if c == '_' {
			up = true
			continue
		}
		if up && 'a' <= c && c <= 'z' {
			c -= 32
		}
		up = false
		b = append(b, c)
	}
	return string(b)
}

func (m *Msg) base(name string, num int32, ty Ty) *descriptorpb.FieldDescriptorProto {
	f := &descriptorpb.FieldDescriptorProto{
		Name:     proto.String(name),
		Number:   proto.Int32(num),
		Label:    descriptorpb.FieldDescriptorProto_LABEL_OPTIONAL.Enum(),
		Type:     ty.K.Enum(),
		JsonName: proto.String(JSONName(name)),
	}
	if ty.Name != "" {
		f.TypeName = proto.String(ty.Name)
	}
	m.P.Field = append(m.P.Field, f)
	return f
}

// Field adds a singular field.
func (m *Msg) Field(name string, num int32, ty Ty) *descriptorpb.FieldDescriptorProto {
	return m.base(name, num, ty)
}

// Rep adds a repeated field (packed by default in proto3 for packable kinds).
func (m *Msg) Rep(name string, num int32, ty Ty) *descriptorpb.FieldDescriptorProto {
	f := m.base(name, num, ty)
	f.Label = descriptorpb.FieldDescriptorProto_LABEL_REPEATED.Enum()
	return f
}

// RepPacked adds a repeated field with an explicit [packed=...] option.
func (m *Msg) RepPacked(name string, num int32, ty Ty, packed bool) *descriptorpb.FieldDescriptorProto {
	f := m.Rep(name, num, ty)
	f.Options = &descriptorpb.FieldOptions{Packed: proto.Bool(packed)}
	return f
}

// OneofField adds a member of the named oneof (declared on first use, in declaration order).
func (m *Msg) OneofField(oneof, name string, num int32, ty Ty) *descriptorpb.FieldDescriptorProto {
	idx, ok := m.oneofs[oneof]
	if !ok {
		idx = int32(len(m.P.OneofDecl))
		m.oneofs[oneof] = idx
		m.P.OneofDecl = append(m.P.OneofDecl, &descriptorpb.OneofDescriptorProto{Name: proto.String(oneof)})
	}
	f := m.base(name, num, ty)
	f.OneofIndex = proto.Int32(idx)
	return f
}

// DeclareOneof fixes the declaration position of a oneof before its members are added.
func (m *Msg) DeclareOneof(oneof string) {
	if _, ok := m.oneofs[oneof]; !ok {
		m.oneofs[oneof] = int32(len(m.P.OneofDecl))
		m.P.OneofDecl = append(m.P.OneofDecl, &descriptorpb.OneofDescriptorProto{Name: proto.String(oneof)})
	}
}

// Map adds map<k, v> name = num.
func (m *Msg) Map(name string, num int32, k T, v Ty) *descriptorpb.FieldDescriptorProto {
	entry := camel(name) + "Entry"
	e := &descriptorpb.DescriptorProto{
		Name:    proto.String(entry),
		Options: &descriptorpb.MessageOptions{MapEntry: proto.Bool(true)},
	}
	kf := &descriptorpb.FieldDescriptorProto{Name: proto.String("key"), Number: proto.Int32(1), Label: descriptorpb.FieldDescriptorProto_LABEL_OPTIONAL.Enum(), Type: k.Enum(), JsonName: proto.String("key")}
	vf := &descriptorpb.FieldDescriptorProto{Name: proto.String("value"), Number: proto.Int32(2), Label: descriptorpb.FieldDescriptorProto_LABEL_OPTIONAL.Enum(), Type: v.K.Enum(), JsonName: proto.String("value")}
	if v.Name != "" {
		vf.TypeName = proto.String(v.Name)
	}
	e.Field = []*descriptorpb.FieldDescriptorProto{kf, vf}
	m.P.NestedType = append(m.P.NestedType, e)
	f := m.base(name, num, M(m.full+"."+entry))
	f.Label = descriptorpb.FieldDescriptorProto_LABEL_REPEATED.Enum()
	return f
}

// ---------------------------------------------------------------------------------------------

// WellKnown returns the FileDescriptorProto of a registered file (google/protobuf/*.proto, cosmos_proto/cosmos.proto).
func WellKnown(path string) *descriptorpb.FileDescriptorProto {
	fd, err := protoregistry.GlobalFiles.FindFileByPath(path)
	if err != nil {
		panic(fmt.Sprintf("well-known file %s not registered: %v", path, err))
	}
	p := protodesc.ToFileDescriptorProto(fd)
	if path == "cosmos_proto/cosmos.proto" {
		// the descriptor embedded in cosmos.pb.go was produced under buf's managed mode; the source
		// file proto/cosmos_proto/cosmos.proto declares the package the Go code really lives in
		p.Options.GoPackage = proto.String("github.com/cosmos/cosmos-proto;cosmos_proto")
	}
	return p
}

// Closure returns files plus all their (registered) dependencies in topological order.
func Closure(files []*descriptorpb.FileDescriptorProto) []*descriptorpb.FileDescriptorProto {
	by := map[string]*descriptorpb.FileDescriptorProto{}
	for _, f := range files {
		by[f.GetName()] = f
	}
	var out []*descriptorpb.FileDescriptorProto
	done := map[string]bool{}
	var visit func(name string)
	visit = func(name string) {
		if done[name] {
			return
		}
		done[name] = true
		f, ok := by[name]
		if !ok {
			f = WellKnown(name)
			by[name] = f
		}
		for _, d := range f.Dependency {
			visit(d)
		}
		out = append(out, f)
	}
	for _, f := range files {
		visit(f.GetName())
	}
	return out
}

// Validate builds the files with protodesc (same checks protoc performs on names, numbers, types).
func Validate(files []*descriptorpb.FileDescriptorProto) (*protoregistry.Files, error) {
	all := Closure(files)
	return protodesc.NewFiles(&descriptorpb.FileDescriptorSet{File: all})
}

// Request builds a CodeGeneratorRequest generating `gen` (names) out of `files`, with a parameter string.
func Request(files []*descriptorpb.FileDescriptorProto, gen []string, param string) *pluginpb.CodeGeneratorRequest {
	all := Closure(files)
	req := &pluginpb.CodeGeneratorRequest{
		FileToGenerate:  gen,
		ProtoFile:       all,
		CompilerVersion: &pluginpb.Version{Major: proto.Int32(3), Minor: proto.Int32(21), Patch: proto.Int32(12)},
	}
	if param != "" {
		req.Parameter = proto.String(param)
	}
	return req
}

type RunResult struct {
	Resp     *pluginpb.CodeGeneratorResponse
	Stderr   string
	ExitCode int
	Err      error // process / decoding problems
}

// RunPlugin runs the plugin binary on one request. env == nil inherits the environment.
func RunPlugin(plugin string, req *pluginpb.CodeGeneratorRequest, env []string, dir string) RunResult {
	in, err := proto.Marshal(req)
	if err != nil {
		return RunResult{Err: err}
	}
	cmd := exec.Command(plugin)
	cmd.Stdin = bytes.NewReader(in)
	var out, errb bytes.Buffer
	cmd.Stdout, cmd.Stderr = &out, &errb
	if env != nil {
		cmd.Env = env
	}
	if dir != "" {
		cmd.Dir = dir
	}
	rerr := cmd.Run()
	res := RunResult{Stderr: errb.String()}
	if rerr != nil {
		if ee, ok := rerr.(*exec.ExitError); ok {
			res.ExitCode = ee.ExitCode()
		} else {
			res.Err = rerr
			return res
		}
	}
	resp := &pluginpb.CodeGeneratorResponse{}
	if err := proto.Unmarshal(out.Bytes(), resp); err != nil {
		res.Err = fmt.Errorf("response does not decode: %v", err)
		return res
	}
	res.Resp = resp
	return res
}

// SortedFileNames lists the generated file names of a response.
func SortedFileNames(r *pluginpb.CodeGeneratorResponse) []string {
	var out []string
	for _, f := range r.GetFile() {
		out = append(out, f.GetName())
	}
	sort.Strings(out)
	return out
}

func MustWrite(path string, b []byte) {
	if err := os.WriteFile(path, b, 0o644); err != nil {
		panic(err)
	}
}

var _ = protoreflect.FullName("")
