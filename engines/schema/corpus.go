package schema

import (
	"fmt"
	"google.golang.org/protobuf/encoding/protowire"
	"strings"

	"google.golang.org/protobuf/proto"
	"google.golang.org/protobuf/types/descriptorpb"
)

// Unit is one generator request of the C12 corpus.
type Unit struct {
	ID        string // also the last element of the Go package path
	Label     string
	Files     []*descriptorpb.FileDescriptorProto
	Gen       []string // file_to_generate (nil = all of Files)
	Param     string
	Expect    string   // "ok" | "error" (answered with an error message, no files) | "any" (response shape not judged beyond "no crash")
	NoCompile bool     // the output is not a self-contained package (single-feature requests)
	Want      []string // expected generated proto files (nil = Gen); others must produce no output
	// Parts lets a failing grouped unit be split into single-message units for attribution.
	Parts []func() Unit
}

type kindSpec struct {
	name string
	ty   func(f *File, m *Msg) Ty
	dep  []string
}

func corpusKinds() []kindSpec {
	var ks []kindSpec
	for _, k := range Scalars {
		k := k
		ks = append(ks, kindSpec{KindName(k), func(*File, *Msg) Ty { return S(k) }, nil})
	}
	ks = append(ks,
		kindSpec{"enum_local", func(f *File, m *Msg) Ty { return E("." + f.P.GetPackage() + ".TopEnum") }, nil},
		kindSpec{"enum_nested", func(f *File, m *Msg) Ty { return E(m.NestedEnum("NE", "NE_ZERO", 0, "NE_A", 3, "NE_NEG", -1)) }, nil},
		kindSpec{"enum_imported", func(*File, *Msg) Ty { return E(".mxo.OtherEnum") }, []string{"mxo/other.proto"}},
		kindSpec{"msg_local", func(f *File, m *Msg) Ty { return M("." + f.P.GetPackage() + ".TopMsg") }, nil},
		kindSpec{"msg_self", func(f *File, m *Msg) Ty { return M(m.Full()) }, nil},
		kindSpec{"msg_nested", func(f *File, m *Msg) Ty {
			n := m.Nested("NM")
			n.Field("q", 1, S(Sint32))
			return M(n.Full())
		}, nil},
		kindSpec{"msg_imported", func(*File, *Msg) Ty { return M(".mxo.Other") }, []string{"mxo/other.proto"}},
		kindSpec{"msg_any", func(*File, *Msg) Ty { return M(anyT) }, []string{"google/protobuf/any.proto"}},
		kindSpec{"msg_timestamp", func(*File, *Msg) Ty { return M(tsT) }, []string{"google/protobuf/timestamp.proto"}},
		kindSpec{"msg_duration", func(*File, *Msg) Ty { return M(durT) }, []string{"google/protobuf/duration.proto"}},
		kindSpec{"msg_empty", func(*File, *Msg) Ty { return M(".google.protobuf.Empty") }, []string{"google/protobuf/empty.proto"}},
	)
	return ks
}

func packable(t Ty) bool { return t.K != String && t.K != Bytes && t.K != Message }

type shapeSpec struct {
	name  string
	apply func(m *Msg, num int32, ty Ty) bool // false: shape not applicable to the type
}

func corpusShapes() []shapeSpec {
	ss := []shapeSpec{
		{"singular", func(m *Msg, n int32, ty Ty) bool { m.Field("f", n, ty); return true }},
		{"repeated", func(m *Msg, n int32, ty Ty) bool { m.Rep("f", n, ty); return true }},
		{"unpacked", func(m *Msg, n int32, ty Ty) bool {
			if !packable(ty) {
				return false
			}
			m.RepPacked("f", n, ty, false)
			return true
		}},
		{"oneof_sole", func(m *Msg, n int32, ty Ty) bool { m.OneofField("o", "f", n, ty); return true }},
		{"oneof_pair", func(m *Msg, n int32, ty Ty) bool {
			m.OneofField("o", "f", n, ty)
			m.OneofField("o", "g", n+1, S(String))
			return true
		}},
	}
	for _, k := range KeyKinds {
		k := k
		ss = append(ss, shapeSpec{"map_" + KindName(k), func(m *Msg, n int32, ty Ty) bool { m.Map("f", n, k, ty); return true }})
	}
	return ss
}

func baseFile(id string, deps map[string]bool) *File {
	var d []string
	for _, x := range []string{"mxo/other.proto", "google/protobuf/any.proto", "google/protobuf/timestamp.proto", "google/protobuf/duration.proto", "google/protobuf/empty.proto"} {
		if deps[x] {
			d = append(d, x)
		}
	}
	f := NewFile("c12/"+id+".proto", "c12."+id, GenRoot+"c12/"+id, d...)
	return f
}

func otherFile() *descriptorpb.FileDescriptorProto { return MX()[0] }

type msgBuilder struct {
	name string
	deps []string
	fill func(f *File, m *Msg)
}

func unitOf(id, label string, mbs []msgBuilder) Unit {
	deps := map[string]bool{}
	for _, mb := range mbs {
		for _, d := range mb.deps {
			deps[d] = true
		}
	}
	f := baseFile(id, deps)
	f.Enum("TopEnum", "TOP_ZERO", 0, "TOP_TWO", 2, "TOP_ONE", 1) // dense numbers, declared out of number order
	te := f.P.EnumType[len(f.P.EnumType)-1]
	te.ReservedRange = []*descriptorpb.EnumDescriptorProto_EnumReservedRange{{Start: proto.Int32(5), End: proto.Int32(9)}}
	te.ReservedName = []string{"TOP_RETIRED"}
	tm := f.Msg("TopMsg")
	tm.Field("t", 1, S(Int32))
	tm.P.ReservedRange = []*descriptorpb.DescriptorProto_ReservedRange{{Start: proto.Int32(2), End: proto.Int32(5)}}
	tm.P.ReservedName = []string{"retired"}
	for _, mb := range mbs {
		m := f.Msg(mb.name)
		mb.fill(f, m)
	}
	files := []*descriptorpb.FileDescriptorProto{f.P}
	if deps["mxo/other.proto"] {
		files = append([]*descriptorpb.FileDescriptorProto{otherFile()}, files...)
	}
	u := Unit{ID: id, Label: label, Files: files, Gen: []string{f.P.GetName()}, Expect: "ok"}
	if deps["mxo/other.proto"] {
		// generate the imported package together with the unit, so that the unit does not depend on the mx unit
		u.Gen = []string{"mxo/other.proto", f.P.GetName()}
	}
	if len(mbs) > 1 {
		for i, mb := range mbs {
			i, mb := i, mb
			u.Parts = append(u.Parts, func() Unit {
				return unitOf(fmt.Sprintf("%s_p%02d", id, i), label+" / "+mb.name, []msgBuilder{mb})
			})
		}
	}
	return u
}

// Corpus builds the schema grammar of DESIGN C12 for a tier.
func Corpus(thorough bool) []Unit {
	var units []Unit
	// 0. the matrix schema itself (every other check depends on it being generable)
	units = append(units, Unit{ID: "mx", Label: "matrix schema mx (all kinds x shapes, 1..5-byte tags, three files, two Go packages)", Files: MX(), Expect: "ok"})
	if thorough {
		units = append(units, Unit{ID: "mxall", Label: "all 12x17 map key/value kind pairs", Files: MXAll(), Expect: "ok"})
	}
	kinds := corpusKinds()
	shapes := corpusShapes()
	// 1. single-field messages: kind x shape x tag width, grouped per (shape, width)
	for _, w := range []int32{1, 16, 2048, 262144, 33554432} {
		for si, sh := range shapes {
			if !thorough && w != 1 && si > 3 {
				continue // quick: the wider tags for singular / repeated / unpacked / sole oneof member only
			}
			var mbs []msgBuilder
			for _, k := range kinds {
				k, sh, w := k, sh, w
				probe := NewFile("x", "x", "x").Msg("P")
				if !sh.apply(probe, w, k.ty(NewFile("x", "x", "x"), probe)) {
					continue
				}
				mbs = append(mbs, msgBuilder{name: "K_" + k.name, deps: k.dep, fill: func(f *File, m *Msg) { sh.apply(m, w, k.ty(f, m)) }})
			}
			units = append(units, unitOf(fmt.Sprintf("s_%s_w%d", sh.name, w), fmt.Sprintf("single field, shape %s, field number %d", sh.name, w), mbs))
		}
	}
	// 2. two-field messages
	repKinds := []T{Int32, Sint64, String, Message}
	if thorough {
		repKinds = []T{Int32, Sint64, Fixed32, Double, String, Bytes, Message, Enum}
	}
	type fv struct {
		name string
		add  func(f *File, m *Msg, fname string, num int32, oneof string)
	}
	var fvs []fv
	for _, k := range repKinds {
		k := k
		ty := func(f *File) Ty {
			switch k {
			case Message:
				return M("." + f.P.GetPackage() + ".TopMsg")
			case Enum:
				return E("." + f.P.GetPackage() + ".TopEnum")
			}
			return S(k)
		}
		fvs = append(fvs,
			fv{KindName(k) + "_sing", func(f *File, m *Msg, n string, num int32, o string) { m.Field(n, num, ty(f)) }},
			fv{KindName(k) + "_rep", func(f *File, m *Msg, n string, num int32, o string) { m.Rep(n, num, ty(f)) }},
			fv{KindName(k) + "_one", func(f *File, m *Msg, n string, num int32, o string) { m.OneofField(o, n, num, ty(f)) }},
		)
		if thorough {
			fvs = append(fvs, fv{KindName(k) + "_map", func(f *File, m *Msg, n string, num int32, o string) { m.Map(n, num, String, ty(f)) }})
		}
	}
	gi := 0
	var mbs []msgBuilder
	flush := func() {
		if len(mbs) > 0 {
			units = append(units, unitOf(fmt.Sprintf("p_%03d", gi), "two-field messages", mbs))
			gi++
			mbs = nil
		}
	}
	for _, a := range fvs {
		for _, b := range fvs {
			a, b := a, b
			for _, order := range []bool{false, true} {
				order := order
				configs := []string{"x"}
				if strings.HasSuffix(a.name, "_one") && strings.HasSuffix(b.name, "_one") {
					configs = []string{"same", "diff"}
				}
				for _, cfg := range configs {
					cfg := cfg
					na, nb := int32(1), int32(2)
					if order {
						na, nb = 20, 3
					}
					mbs = append(mbs, msgBuilder{name: fmt.Sprintf("P_%s__%s_%v_%s", a.name, b.name, order, cfg), fill: func(f *File, m *Msg) {
						oa, ob := "oa", "ob"
						if cfg == "same" {
							ob = "oa"
						}
						a.add(f, m, "first", na, oa)
						b.add(f, m, "second", nb, ob)
					}})
					if len(mbs) >= 24 {
						flush()
					}
				}
			}
		}
	}
	flush()
	// 3. name collisions: one unit per (position, name)
	names := []string{"descriptor", "type", "new", "interface", "range", "has", "clear", "get", "set", "mutable", "new_field", "which_oneof", "get_unknown", "set_unknown", "is_valid", "proto_methods",
		"reset", "string", "proto_message", "proto_reflect", "unknown_fields", "size_cache", "state", "x", "i", "l", "n", "v", "options", "input", "d_at_a", "size", "marshal", "unmarshal",
		"fmt", "math", "runtime", "sort", "io", "proto", "protoreflect", "protoiface", "func", "map", "chan", "go", "select", "default", "package", "len", "nil", "value", "list", "fd", "md", "m"}
	if !thorough {
		names = []string{"descriptor", "type", "range", "has", "get", "set", "which_oneof", "is_valid", "proto_methods", "reset", "string", "proto_reflect", "proto_message", "x", "i", "l", "n", "options", "input", "size", "fmt", "math", "runtime", "sort", "io", "func", "map", "value", "m"}
	}
	camelName := func(s string) string { return camel(s) }
	for _, n := range names {
		n := n
		units = append(units,
			unitOf("nf_"+n, "field named "+n, []msgBuilder{{name: "Holder", fill: func(f *File, m *Msg) {
				m.Field(n, 1, S(Int32))
				m.Rep(n+"_list", 2, S(String))
				m.Map(n+"_map", 3, String, S(Int32))
				m.Field(n+"_msg", 4, M("."+f.P.GetPackage()+".TopMsg"))
			}}}),
			unitOf("no_"+n, "oneof named "+n, []msgBuilder{{name: "Holder", fill: func(f *File, m *Msg) {
				m.OneofField(n, "a", 1, S(Int32))
				m.OneofField(n, "b", 2, M("."+f.P.GetPackage()+".TopMsg"))
				m.Field("plain", 3, S(String))
			}}}),
			unitOf("nm_"+n, "oneof member named "+n, []msgBuilder{{name: "Holder", fill: func(f *File, m *Msg) {
				m.OneofField("choice", n, 1, S(Int32))
				m.OneofField("choice", n+"_msg", 2, M("."+f.P.GetPackage()+".TopMsg"))
			}}}),
		)
		units = append(units, unitOf("nt_"+n, "message and enum named "+camelName(n), []msgBuilder{{name: camelName(n) + "X", fill: func(f *File, m *Msg) {
			e := m.NestedEnum(camelName(n), strings.ToUpper(n)+"_ZERO", 0, strings.ToUpper(n)+"_VAL", 1)
			nm := m.Nested(camelName(n) + "Msg")
			nm.Field(n, 1, S(Bool))
			m.Field("e", 1, E(e))
			m.Field("nm", 2, M(nm.Full()))
			m.Rep("es", 3, E(e))
		}}}))
	}
	// identifiers that map to the same Go name: nested message vs field
	units = append(units, unitOf("nx_same_goname", "nested message Foo_Bar beside field foo_bar and message FooBar", []msgBuilder{{name: "Foo", fill: func(f *File, m *Msg) {
		n := m.Nested("Bar")
		n.Field("v", 1, S(Int32))
		m.Field("bar", 1, M(n.Full()))
		m.Field("foo_bar", 2, S(Int32))
		m.Field("get_bar", 3, S(String))
	}}, {name: "FooBar", fill: func(f *File, m *Msg) { m.Field("foo", 1, S(Int32)) }}}))
	// 4. file graphs
	units = append(units, graphUnits()...)
	// 5. request parameters, on a small schema
	small := func(id string) []*descriptorpb.FileDescriptorProto {
		f := NewFile("c12/"+id+".proto", "c12."+id, GenRoot+"c12/"+id)
		m := f.Msg("R")
		m.Field("a", 1, S(Int32))
		m.Map("mp", 2, String, M(m.Full()))
		m.OneofField("o", "s", 3, S(Sint32))
		return []*descriptorpb.FileDescriptorProto{f.P}
	}
	for i, p := range []struct{ param, expect string }{
		{"features=fast", "ok"}, {"features=protoc", "any"}, {"features=protoc+fast", "ok"}, {"features=fast+protoc", "ok"}, {"features=all", "ok"},
		{"features=bogus", "error"}, {"features=fast+bogus", "error"}, {"features=", "error"}, {"paths=source_relative", "ok"}, {"paths=import", "ok"},
		{"paths=source_relative,features=fast+protoc", "ok"},
	} {
		id := fmt.Sprintf("rq_%02d", i)
		units = append(units, Unit{ID: id, Label: "parameter " + p.param, Files: small(id), Param: p.param, Expect: p.expect, NoCompile: p.param == "features=fast" || p.param == "features=protoc"})
	}
	mid := "rq_mflag"
	fs := small(mid)
	fs[0].Options.GoPackage = nil
	units = append(units, Unit{ID: mid, Label: "M<file>=<path> mapping", Files: fs, Param: "Mc12/" + mid + ".proto=" + GenRoot + "c12/" + mid, Expect: "ok"})
	return units
}

func graphUnits() []Unit {
	var out []Unit
	// two files of one Go package + one file of another package, mutual recursion across messages, public import
	{
		id := "g_multi"
		b := NewFile("c12/"+id+"/b.proto", "c12."+id, GenRoot+"c12/"+id)
		be := b.Enum("BE", "BE_ZERO", 0, "BE_X", 2)
		bm := b.Msg("BM")
		bm.Field("e", 1, E(be))
		o := NewFile("c12/"+id+"_o/o.proto", "c12."+id+"_o", GenRoot+"c12/"+id+"_o", "c12/"+id+"/b.proto")
		om := o.Msg("OM")
		om.Field("b", 1, M(bm.Full()))
		om.Rep("bs", 2, M(bm.Full()))
		om.Map("bm", 3, Int64, M(bm.Full()))
		om.OneofField("oo", "ob", 4, M(bm.Full()))
		om.OneofField("oo", "oe", 5, E(be))
		om.Field("self", 6, M(om.Full()))
		// a.proto sorts before b.proto and imports a file of another Go package BEFORE its same-package import
		a := NewFile("c12/"+id+"/a.proto", "c12."+id, GenRoot+"c12/"+id, "google/protobuf/timestamp.proto", "c12/"+id+"/b.proto")
		am := a.Msg("AM")
		am.Field("b", 1, M(bm.Full()))
		am.Field("e", 2, E(be))
		am.Field("when", 3, M(".google.protobuf.Timestamp"))
		am.Rep("es", 4, E(be))
		am.Map("eb", 5, String, E(be))
		x := a.Msg("X")
		y := a.Msg("Y")
		x.Field("y", 1, M(y.Full()))
		y.Field("x", 1, M(x.Full()))
		y.Rep("xs", 2, M(x.Full()))
		l1 := a.Msg("L1")
		l2 := l1.Nested("L2")
		l3 := l2.Nested("L3")
		l3e := l3.NestedEnum("E3", "E3_ZERO", 0, "E3_Q", 9)
		l3.Field("e", 1, E(l3e))
		l3.Field("up", 2, M(l1.Full()))
		l2.Field("l3", 1, M(l3.Full()))
		l1.Field("l2", 1, M(l2.Full()))
		l1.Map("deep", 2, String, M(l3.Full()))
		sib := a.Msg("Sib") // later sibling with nested declarations of its own
		sq := sib.Nested("Q")
		sqe := sq.NestedEnum("Shape", "SHAPE_ZERO", 0, "SQUARE", 1)
		sq.Field("shape", 1, E(sqe))
		sq.Field("l3", 2, M(l3.Full()))
		sib.Field("q", 1, M(sq.Full()))
		sib.Field("e3", 2, E(l3e))
		out = append(out, Unit{ID: id, Label: "two files in one Go package, a third in another, mutual recursion, 3-level nesting", Files: []*descriptorpb.FileDescriptorProto{b.P, a.P, o.P}, Expect: "ok"})
		// only one of the files requested: the others must produce no output
		out = append(out, Unit{ID: id + "_sub", Label: "file_to_generate is a strict subset", Files: []*descriptorpb.FileDescriptorProto{b.P, a.P, o.P}, Gen: []string{"c12/" + id + "/b.proto"}, Expect: "ok", Want: []string{"c12/" + id + "/b.proto"}})
	}
	// service with methods, custom options
	{
		id := "g_service"
		f := NewFile("c12/"+id+".proto", "c12."+id, GenRoot+"c12/"+id, "cosmos_proto/cosmos.proto")
		rq := f.Msg("Req")
		rq.Field("q", 1, S(String))
		rs := f.Msg("Resp")
		rs.Field("r", 1, S(Int64))
		svc := &descriptorpb.ServiceDescriptorProto{Name: proto.String("Svc")}
		svc.Method = append(svc.Method,
			&descriptorpb.MethodDescriptorProto{Name: proto.String("Unary"), InputType: proto.String(rq.Full()), OutputType: proto.String(rs.Full())},
			&descriptorpb.MethodDescriptorProto{Name: proto.String("Stream"), InputType: proto.String(rq.Full()), OutputType: proto.String(rs.Full()), ServerStreaming: proto.Bool(true), ClientStreaming: proto.Bool(true)})
		f.P.Service = append(f.P.Service, svc)
		out = append(out, Unit{ID: id, Label: "service with unary and streaming methods", Files: []*descriptorpb.FileDescriptorProto{f.P}, Expect: "ok"})
	}
	// extension fields (custom options): declared at file level for two extendees in non-contiguous blocks, and inside a
	// message (which proto3 allows: the message itself has no extension ranges); used in the file's own options
	{
		id := "g_extensions"
		f := NewFile("c12/"+id+".proto", "c12."+id, GenRoot+"c12/"+id, "google/protobuf/descriptor.proto")
		ext := func(name string, num int32, ty descriptorpb.FieldDescriptorProto_Type, typeName, extendee string) *descriptorpb.FieldDescriptorProto {
			e := &descriptorpb.FieldDescriptorProto{Name: proto.String(name), Number: proto.Int32(num), Type: ty.Enum(), Extendee: proto.String(extendee),
				Label: descriptorpb.FieldDescriptorProto_LABEL_OPTIONAL.Enum(), JsonName: proto.String(JSONName(name))}
			if typeName != "" {
				e.TypeName = proto.String(typeName)
			}
			return e
		}
		holder := f.Msg("Holder")
		holder.Field("v", 1, S(Int32))
		holder.Rep("vs", 2, S(Sint64))
		holder.P.Extension = append(holder.P.Extension,
			ext("svc_inner", 52006, descriptorpb.FieldDescriptorProto_TYPE_BOOL, "", ".google.protobuf.ServiceOptions"),
			ext("inner", 52001, descriptorpb.FieldDescriptorProto_TYPE_BYTES, "", ".google.protobuf.FieldOptions"))
		f.P.Extension = append(f.P.Extension,
			ext("contact", 52002, descriptorpb.FieldDescriptorProto_TYPE_STRING, "", ".google.protobuf.MessageOptions"),
			ext("unit", 52003, descriptorpb.FieldDescriptorProto_TYPE_INT32, "", ".google.protobuf.FieldOptions"),
			ext("stage", 52004, descriptorpb.FieldDescriptorProto_TYPE_STRING, "", ".google.protobuf.MessageOptions"),
			ext("holder", 52005, descriptorpb.FieldDescriptorProto_TYPE_MESSAGE, holder.Full(), ".google.protobuf.MessageOptions"))
		holder.P.Options = &descriptorpb.MessageOptions{}
		holder.P.Options.ProtoReflect().SetUnknown(protowire.AppendString(protowire.AppendTag(protowire.AppendString(protowire.AppendTag(nil, 52002, protowire.BytesType), "a@example.org"), 52004, protowire.BytesType), "beta"))
		out = append(out, Unit{ID: id, Label: "extension fields at file level (interleaved extendees) and inside a message", Files: []*descriptorpb.FileDescriptorProto{f.P}, Expect: "ok"})
	}
	// comments of every flavour on every kind of declaration, deprecated options, custom json names
	{
		id := "g_annotated"
		f := NewFile("c12/"+id+".proto", "c12."+id, GenRoot+"c12/"+id)
		f.P.Options.Deprecated = proto.Bool(true)
		en := f.Enum("Ann", "ANN_ZERO", 0, "ANN_OLD", 1)
		f.P.EnumType[0].Options = &descriptorpb.EnumOptions{Deprecated: proto.Bool(true)}
		f.P.EnumType[0].Value[1].Options = &descriptorpb.EnumValueOptions{Deprecated: proto.Bool(true)}
		m := f.Msg("Doc")
		m.P.Options = &descriptorpb.MessageOptions{Deprecated: proto.Bool(true)}
		fa := m.Field("a", 1, S(String))
		fa.Options = &descriptorpb.FieldOptions{Deprecated: proto.Bool(true)}
		fa.JsonName = proto.String("customA")
		fb := m.Field("b_c", 2, E(en))
		fb.JsonName = proto.String("b-c!")
		m.OneofField("choice", "x", 3, S(Int32))
		m.OneofField("choice", "y", 4, S(Bytes))
		m.Rep("r", 5, M(m.Full()))
		m.Map("mm", 6, String, S(Int64))
		n := m.Nested("Inner")
		n.Field("z", 1, S(Bool))
		svc := &descriptorpb.ServiceDescriptorProto{Name: proto.String("DocSvc"), Options: &descriptorpb.ServiceOptions{Deprecated: proto.Bool(true)}}
		svc.Method = append(svc.Method, &descriptorpb.MethodDescriptorProto{Name: proto.String("Get"), InputType: proto.String(m.Full()), OutputType: proto.String(m.Full()), Options: &descriptorpb.MethodOptions{Deprecated: proto.Bool(true)}})
		f.P.Service = append(f.P.Service, svc)
		texts := []string{
			" plain comment\n",
			" closes a block */ and opens one /* and again */\n",
			" line one\n line two\r\n line three with a tab\t and a backslash \\ and a quote \" and a backtick `\n",
			"\n\n",
			" // nested line comment\n//go:build ignore\n//go:generate rm -rf /\n",
			" Deprecated: do not use.\n\n Deprecated: twice.\n",
			" unicode \u00e9\u4e16\u754c \U0001F600 and a template {{.X}} and %s %d %%\n",
			" package main\n func init() { panic(1) }\n",
			"no leading space and no final newline",
		}
		paths := [][]int32{
			{12}, {2}, {8}, // syntax, package, options
			{4, 0}, {4, 0, 2, 0}, {4, 0, 2, 1}, {4, 0, 2, 2}, {4, 0, 2, 3}, {4, 0, 2, 4}, {4, 0, 2, 5}, {4, 0, 8, 0}, {4, 0, 3, 0}, {4, 0, 3, 0, 2, 0},
			{5, 0}, {5, 0, 2, 0}, {5, 0, 2, 1}, {6, 0}, {6, 0, 2, 0},
		}
		sci := &descriptorpb.SourceCodeInfo{}
		for i, pth := range paths {
			loc := &descriptorpb.SourceCodeInfo_Location{Path: pth, Span: []int32{int32(i), 0, 1}}
			loc.LeadingComments = proto.String(texts[i%len(texts)])
			loc.TrailingComments = proto.String(texts[(i+3)%len(texts)])
			loc.LeadingDetachedComments = []string{texts[(i+5)%len(texts)], texts[(i+1)%len(texts)]}
			sci.Location = append(sci.Location, loc)
		}
		f.P.SourceCodeInfo = sci
		out = append(out, Unit{ID: id, Label: "comments (block terminators, directives, CRLF, templates) on every kind of declaration; deprecated options everywhere; custom json names", Files: []*descriptorpb.FileDescriptorProto{f.P}, Expect: "ok"})
	}
	// one Go package built from two proto packages; the importer's file name sorts first and it uses the import's types
	{
		id := "g_twopkgs"
		goPkg := GenRoot + "c12/" + id
		dep := NewFile("c12/"+id+"/z_dep.proto", "c12."+id+".types", goPkg)
		de := dep.Enum("Kind", "KIND_ZERO", 0, "KIND_ONE", 1)
		dm := dep.Msg("Dep")
		dm.Field("n", 1, S(Int32))
		dm.Field("label", 2, S(String))
		first := NewFile("c12/"+id+"/a_first.proto", "c12."+id+".api", goPkg, "c12/"+id+"/z_dep.proto")
		fm := first.Msg("First")
		fm.Field("dep", 1, M(dm.Full()))
		fm.Field("kind", 2, E(de))
		fm.Rep("deps", 3, M(dm.Full()))
		fm.Map("by", 4, String, E(de))
		same := NewFile("c12/"+id+"/b_same.proto", "c12."+id+".types", goPkg, "c12/"+id+"/z_dep.proto")
		sm := same.Msg("Same")
		sm.Field("dep", 1, M(dm.Full()))
		out = append(out, Unit{ID: id, Label: "one Go package from two proto packages, importer file sorting first", Files: []*descriptorpb.FileDescriptorProto{dep.P, first.P, same.P}, Expect: "ok"})
	}
	// go_package of the form "import/path;name": the package clause differs from the directory name; used from another package
	{
		id := "g_goalias"
		lib := NewFile("c12/"+id+"/lib.proto", "c12."+id+".lib", GenRoot+"c12/"+id+"_lib;aliaslib")
		le := lib.Enum("LE", "LE_ZERO", 0, "LE_ONE", 1)
		lm := lib.Msg("LM")
		lm.Field("e", 1, E(le))
		lm.Map("m", 2, String, S(Int32))
		app := NewFile("c12/"+id+"/app.proto", "c12."+id, GenRoot+"c12/"+id+";aliasapp", "c12/"+id+"/lib.proto")
		am := app.Msg("AppMsg")
		am.Field("l", 1, M(lm.Full()))
		am.Rep("ls", 2, M(lm.Full()))
		am.Map("ml", 3, Int32, M(lm.Full()))
		am.Field("e", 4, E(le))
		am.OneofField("o", "ol", 5, M(lm.Full()))
		out = append(out, Unit{ID: id, Label: "go_package with an explicit package name (path;name), used across packages", Files: []*descriptorpb.FileDescriptorProto{lib.P, app.P}, Expect: "ok"})
	}
	// a proto2 file next to a proto3 file: no output for the proto2 one
	{
		id := "g_proto2"
		p2 := &descriptorpb.FileDescriptorProto{Name: proto.String("c12/" + id + "/old.proto"), Package: proto.String("c12." + id), Syntax: proto.String("proto2"),
			Options: &descriptorpb.FileOptions{GoPackage: proto.String(GenRoot + "c12/" + id + "_old")},
			MessageType: []*descriptorpb.DescriptorProto{{Name: proto.String("Old"), Field: []*descriptorpb.FieldDescriptorProto{
				{Name: proto.String("a"), Number: proto.Int32(1), Type: descriptorpb.FieldDescriptorProto_TYPE_INT32.Enum(), Label: descriptorpb.FieldDescriptorProto_LABEL_OPTIONAL.Enum(), JsonName: proto.String("a")}}}}}
		f := NewFile("c12/"+id+"/new.proto", "c12."+id+"n", GenRoot+"c12/"+id)
		m := f.Msg("New")
		m.Field("a", 1, S(Int32))
		out = append(out, Unit{ID: id, Label: "proto2 file requested beside a proto3 file", Files: []*descriptorpb.FileDescriptorProto{p2, f.P}, Expect: "ok", Want: []string{"c12/" + id + "/new.proto"}})
	}
	return out
}
