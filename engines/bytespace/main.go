// Engine "bytespace" (C06): Unmarshal is total. Exhaustive enumeration of short byte strings, of all
// single-byte edits / truncations / adversarial-length substitutions of valid encodings, of
// truncated map entries and of nesting depths along every recursive path, for every pulsar type.
package main

import (
	"bytes"
	"encoding/hex"
	"fmt"
	"os"
	"os/exec"
	"regexp"
	"runtime"
	"strings"
	"sync/atomic"

	"github.com/cosmos/cosmos-proto/internal/zzverif/enum"
	"github.com/cosmos/cosmos-proto/internal/zzverif/hz"
	"google.golang.org/protobuf/encoding/protojson"
	"google.golang.org/protobuf/encoding/prototext"
	"google.golang.org/protobuf/encoding/protowire"
	"google.golang.org/protobuf/proto"
	"google.golang.org/protobuf/reflect/protoreflect"
)

type bcase struct {
	Type  string `json:"type"`
	Space string `json:"space"`
	Bytes string `json:"bytes_hex,omitempty"`
	// deep-nesting cases are described, not spelled out
	Path  []int32 `json:"path_field_numbers,omitempty"`
	Depth int     `json:"depth,omitempty"`
	DevAt int     `json:"deviation_level,omitempty"`
	DevFD int32   `json:"deviation_field,omitempty"`
	// merge-into-artefact cases: the state the target is in
	Artefact string `json:"artefact,omitempty"`
}

var addrRe = regexp.MustCompile(`0x[0-9a-f]+|\[[0-9:-]+\]|\d+`)

func panicClass(p interface{}) string {
	s := fmt.Sprint(p)
	s = addrRe.ReplaceAllString(s, "N")
	if len(s) > 60 {
		s = s[:60]
	}
	return s
}

func deepRange(m protoreflect.Message, depth int) {
	if depth > 64 {
		return
	}
	m.Range(func(fd protoreflect.FieldDescriptor, v protoreflect.Value) bool {
		switch {
		case fd.IsList():
			l := v.List()
			for i := 0; i < l.Len(); i++ {
				e := l.Get(i)
				if fd.Kind() == protoreflect.MessageKind {
					deepRange(e.Message(), depth+1)
				}
			}
		case fd.IsMap():
			v.Map().Range(func(k protoreflect.MapKey, mv protoreflect.Value) bool {
				if fd.MapValue().Kind() == protoreflect.MessageKind {
					deepRange(mv.Message(), depth+1)
				}
				return true
			})
		case fd.Kind() == protoreflect.MessageKind:
			deepRange(v.Message(), depth+1)
		}
		return true
	})
}

var accepted, rejected atomic.Int64

// lite: reduced bounds, used when the engine runs as part of C12's battery over the generated corpus
var lite bool

// decode runs the property's oracle on one input. full selects the complete follow-up battery.
func decode(h *hz.H, md protoreflect.MessageDescriptor, in []byte, space string, full bool) {
	g := enum.NewGo(md)
	var err error
	buf := append([]byte(nil), in...)
	mk := func() bcase { return bcase{Type: string(md.FullName()), Space: space, Bytes: hex.EncodeToString(in)} }
	if p := hz.Catch(func() { err = proto.Unmarshal(buf, g) }); p != nil {
		h.ViolateMin(fmt.Sprintf("C06/unmarshal-panic/%s/%s", md.FullName(), panicClass(p)), fmt.Sprintf("proto.Unmarshal(%x) into %s panicked: %v", clipb(in), md.FullName(), p), mk(), len(in))
		return
	}
	if space == "adversarial-varint" || space == "seed" || space == "depth-discard" {
		// the same input with DiscardUnknown: the skip path has its own bounds handling
		gd := enum.NewGo(md)
		var derr error
		if p := hz.Catch(func() { derr = proto.UnmarshalOptions{DiscardUnknown: true}.Unmarshal(append([]byte(nil), in...), gd) }); p != nil {
			h.ViolateMin(fmt.Sprintf("C06/unmarshal-panic(DiscardUnknown)/%s/%s", md.FullName(), panicClass(p)), fmt.Sprintf("UnmarshalOptions{DiscardUnknown:true}.Unmarshal(%x) into %s panicked: %v", clipb(in), md.FullName(), p), mk(), len(in))
			return
		}
		if (derr == nil) != (err == nil) {
			h.ViolateMin(fmt.Sprintf("C06/discard-changes-acceptance/%s", md.FullName()), fmt.Sprintf("%x into %s: plain decode err=%v, DiscardUnknown decode err=%v (dropping unknown fields must not change whether the input is well-formed)", clipb(in), md.FullName(), err, derr), mk(), len(in))
			return
		}
	}
	if err != nil {
		rejected.Add(1)
		return
	}
	accepted.Add(1)
	// follow-up battery: an accepted message can be sized, marshalled, compared, ranged over
	step := ""
	var sz int
	var enc []byte
	p := hz.Catch(func() {
		step = "Size"
		sz = proto.Size(g)
		step = "Marshal"
		var e error
		enc, e = proto.Marshal(g)
		if e != nil {
			enc = nil
			sz = -1
		}
		step = "Range"
		deepRange(g.ProtoReflect(), 0)
		if full {
			step = "Marshal(Deterministic)"
			proto.MarshalOptions{Deterministic: true}.Marshal(g)
			step = "Equal"
			g2 := enum.NewGo(md)
			if proto.Unmarshal(append([]byte(nil), in...), g2) == nil {
				proto.Equal(g, g2)
				proto.Equal(g2, g)
				// ... and with a message that differs from it: same known fields, other unknown bytes of the same length
				// (protobuf-go then parses both unknown sets; whatever the decoder stored there must be parseable)
				if setWitness(g.ProtoReflect(), g2.ProtoReflect(), 0) {
					step = "Equal(with a message holding other unknown bytes)"
					proto.Equal(g, g2)
					proto.Equal(g2, g)
				}
			}
		}
	})
	if p == nil && full {
		// beyond the statement's list (sized, marshalled, compared, ranged): recorded, not judged
		for _, o := range []struct {
			name string
			f    func()
		}{
			{"Clone", func() { proto.Clone(g) }},
			{"String", func() {
				if s, ok := g.(fmt.Stringer); ok {
					_ = s.String()
				}
			}},
			{"prototext.Marshal", func() { prototext.Marshal(g) }},
			{"protojson.Marshal", func() { protojson.Marshal(g) }},
		} {
			if q := hz.Catch(o.f); q != nil {
				h.Counter("not_judged_panics_in_"+o.name+"_on_accepted_input", 1)
				if h.WantNote("beyond:" + o.name) {
					h.AddExtra("not_judged_example_"+o.name, fmt.Sprintf("%s accepted %x; %s panicked: %v", md.FullName(), clipb(in), o.name, q))
				}
			}
		}
	}
	if p != nil {
		h.ViolateMin(fmt.Sprintf("C06/followup-panic/%s/%s/%s", step, md.FullName(), panicClass(p)), fmt.Sprintf("%s accepted %x, but %s on the result panicked: %v", md.FullName(), clipb(in), step, p), mk(), len(in))
		return
	}
	if sz >= 0 && sz != len(enc) {
		h.ViolateMin(fmt.Sprintf("C06/followup-size/%s", md.FullName()), fmt.Sprintf("%s accepted %x; proto.Size=%d but len(Marshal)=%d", md.FullName(), clipb(in), sz, len(enc)), mk(), len(in))
	}
}

func clipb(b []byte) []byte {
	if len(b) > 64 {
		return b[:64]
	}
	return b
}

func reducedAlphabet(md protoreflect.MessageDescriptor) []byte {
	seen := map[byte]bool{}
	var out []byte
	add := func(b byte) {
		if !seen[b] {
			seen[b] = true
			out = append(out, b)
		}
	}
	// first tag byte of every field in all 8 wire types (multi-byte tags contribute their first byte;
	// their continuation bytes are added below)
	fs := md.Fields()
	for i := 0; i < fs.Len() && len(out) < 40; i++ {
		n := fs.Get(i).Number()
		for wt := 0; wt < 8; wt++ {
			t := protowire.AppendVarint(nil, uint64(n)<<3|uint64(wt))
			if len(t) == 1 || wt == 2 || wt == 0 {
				for _, b := range t {
					add(b)
				}
			}
		}
	}
	for _, b := range []byte{0x00, 0x01, 0x02, 0x03, 0x04, 0x05, 0x08, 0x0a, 0x0b, 0x0c, 0x12, 0x7f, 0x80, 0x81, 0xff} {
		add(b)
	}
	return out
}

func main() {
	if len(os.Args) > 1 && os.Args[1] == "-child-depth" {
		childDepth()
		return
	}
	h := hz.New()
	if h.Prop != "C06" {
		fmt.Fprintln(os.Stderr, "INTERNAL: engine bytespace serves C06 only")
		os.Exit(2)
	}
	if h.Replay != "" {
		var c bcase
		h.LoadReplay(&c)
		md := findType(c.Type)
		if md == nil {
			h.InternalError("replay: type not in this binary: " + c.Type)
			h.Finish()
		}
		if c.Space == "depth" {
			checkDepthDev(h, md, c.Path, c.Depth, c.DevAt-1, c.DevFD)
		} else if c.Space == "merge-into-artefact" {
			runMergeIntoArtefacts(h, []protoreflect.MessageDescriptor{md})
		} else if c.Space == "nested-alloc" {
			checkNestedAlloc(h, md, c.Path, c.Depth, c.DevAt)
		} else {
			b, _ := hex.DecodeString(c.Bytes)
			decode(h, md, b, c.Space, true)
		}
		h.Eval(true, 1)
		h.Eval(true, 2)
		h.Finish()
	}
	types := enum.TypesMatching(os.Getenv("VERIF_TYPES"))
	if len(types) < 5 {
		h.InternalError(fmt.Sprintf("vacuous: only %d pulsar types found", len(types)))
		h.Finish()
	}
	lite = os.Getenv("VERIF_LITE") != ""
	runShort(h, types)
	runEdits(h, types)
	runDepth(h, types)
	runNestedAlloc(h, types)
	runMergeIntoArtefacts(h, types)
	runUnknownGroupDepth(h, types)
	h.AddExtra("inputs_accepted", accepted.Load())
	h.AddExtra("inputs_rejected", rejected.Load())
	if accepted.Load() < 1000 || rejected.Load() < 1000 {
		h.InternalError("vacuous: fewer than 1000 accepted or rejected inputs")
	}
	h.Rep.Rule = "(1) every byte string of length <=3 over all 256 values for 4 small types and every string up to the stated length over a per-type reduced alphabet for every type; (2) for every reference encoding of a <=1-slot value: every prefix, every single-byte substitution by every reduced-alphabet byte, every single-byte deletion and insertion; (3) every adversarial varint substituted at every position; (4) every truncation of every map-entry shape with a consistent outer length; (5) nesting depths around the protobuf-go limit along every recursive path, huge depths in a child process; non-trivial = every input (each is decoded); distinct = dense spaces are distinct by construction, the rest hashed by (type, bytes)"
	h.Rep.Assumptions = []string{"panics are observed with recover in-process; stack exhaustion and runaway memory are observed as the exit status of an isolated child process", "the recursion limit is protobuf-go's (10000): agreement with dynamicpb is required exactly at the limit"}
	h.Finish()
}

func findType(name string) protoreflect.MessageDescriptor {
	for _, md := range enum.PulsarTypes() {
		if string(md.FullName()) == name {
			return md
		}
	}
	return nil
}

func runShort(h *hz.H, types []protoreflect.MessageDescriptor) {
	// (1a) full 256-ary space, length <= 3, for a few small types
	small := map[string]bool{"B": true, "mx.Leaf": true, "goproto.proto.test3.ForeignMessage": true, "mx.Nest.L1.L2": true, "mxo.Other": true}
	var smallTypes []protoreflect.MessageDescriptor
	for _, md := range types {
		if small[string(md.FullName())] {
			smallTypes = append(smallTypes, md)
		}
	}
	full := uint64(1 + 256 + 256*256 + 256*256*256)
	var names []string
	for _, md := range smallTypes {
		md := md
		names = append(names, string(md.FullName()))
		h.ParChunks(full, 1<<14, "all byte strings <=3 for "+string(md.FullName()), func(lo, hi uint64) {
			var buf [3]byte
			for i := lo; i < hi; i++ {
				var b []byte
				switch {
				case i == 0:
					b = buf[:0]
				case i < 257:
					buf[0] = byte(i - 1)
					b = buf[:1]
				case i < 257+65536:
					j := i - 257
					buf[0], buf[1] = byte(j>>8), byte(j)
					b = buf[:2]
				default:
					j := i - 257 - 65536
					buf[0], buf[1], buf[2] = byte(j>>16), byte(j>>8), byte(j)
					b = buf[:3]
				}
				decode(h, md, b, "all-bytes<=3", false)
			}
			h.EvalN(int64(hi - lo))
			h.DistinctN(int64(hi - lo))
		})
	}
	h.Rep.Bounds["full_256_alphabet_len<=3_types"] = names
	// (1b) reduced alphabet, every type
	L := 4
	if h.Thorough() {
		L = 5
	}
	if lite {
		L = 3
	}
	h.Rep.Bounds["reduced_alphabet_maxlen"] = L
	var ra []string
	for _, md := range types {
		md := md
		alpha := reducedAlphabet(md)
		if len(alpha) > 36 && !h.Thorough() {
			alpha = alpha[len(alpha)-36:]
		}
		ra = append(ra, fmt.Sprintf("%s: %d bytes", md.FullName(), len(alpha)))
		for l := 1; l <= L; l++ {
			total := uint64(1)
			for i := 0; i < l; i++ {
				total *= uint64(len(alpha))
			}
			l := l
			h.ParChunks(total, 1<<13, fmt.Sprintf("reduced alphabet len=%d for %s", l, md.FullName()), func(lo, hi uint64) {
				buf := make([]byte, l)
				for i := lo; i < hi; i++ {
					j := i
					for p := l - 1; p >= 0; p-- {
						buf[p] = alpha[j%uint64(len(alpha))]
						j /= uint64(len(alpha))
					}
					decode(h, md, buf, "reduced-alphabet", false)
				}
				h.EvalN(int64(hi - lo))
				h.DistinctN(int64(hi - lo))
			})
		}
	}
	h.Rep.Bounds["reduced_alphabets"] = ra
}

func adversarialVarints() [][]byte {
	var out [][]byte
	for _, v := range []uint64{127, 128, 1<<31 - 1, 1 << 31, 1 << 32, 1<<63 - 1, 1 << 63, 1<<64 - 1} {
		out = append(out, protowire.AppendVarint(nil, v))
	}
	// lengths that only overflow once an offset of a few bytes is added to them
	for _, k := range []uint64{1, 2, 3, 9, 10, 11, 12, 13, 20} {
		out = append(out, protowire.AppendVarint(nil, 1<<63-1-k))
	}
	out = append(out, []byte{0xff, 0xff, 0xff, 0xff, 0xff, 0xff, 0xff, 0xff, 0xff, 0x7f})       // 10 bytes, overflowing
	out = append(out, []byte{0x80, 0x80, 0x80, 0x80, 0x80, 0x80, 0x80, 0x80, 0x80, 0x80, 0x01}) // 11 bytes
	out = append(out, []byte{0xff, 0xff, 0xff, 0xff, 0x07})                                     // 2^31-1 in 5 bytes
	out = append(out, []byte{0xf8, 0xff, 0xff, 0xff, 0x0f})                                     // just below 2^32
	return out
}

func runEdits(h *hz.H, types []protoreflect.MessageDescriptor) {
	type seed struct {
		md protoreflect.MessageDescriptor
		b  []byte
	}
	var seeds []seed
	var names []string
	for _, md := range types {
		lv := enum.Reduced
		if h.Thorough() {
			lv = enum.Boundary
		}
		sp := enum.NewSpace(md, enum.Opts{Top: lv, MaxDepth: 1})
		seen := map[string]bool{}
		n0 := len(seeds)
		sp.ForEach(1, 1, func(c enum.Case) bool {
			b, err := proto.MarshalOptions{Deterministic: true}.Marshal(sp.BuildDyn(c).Interface())
			if err == nil && len(b) > 0 && len(b) <= 200 && !seen[string(b)] {
				seen[string(b)] = true
				seeds = append(seeds, seed{md, b})
			}
			return true
		})
		// unknown records of every wire type, groups holding length-delimited fields among them
		for _, u := range enum.UnknownAlphabet(md, enum.Boundary) {
			if !seen[string(u)] {
				seen[string(u)] = true
				seeds = append(seeds, seed{md, u})
			}
		}
		// (4) truncated map entries with a consistent outer length, and every C03 record
		for _, r := range enum.RecordAlphabet(md, false) {
			if !seen[string(r.Bytes)] {
				seen[string(r.Bytes)] = true
				seeds = append(seeds, seed{md, r.Bytes})
			}
			if strings.HasPrefix(r.Class, "map<") {
				_, _, tl := protowire.ConsumeTag(r.Bytes)
				body, _ := protowire.ConsumeBytes(r.Bytes[tl:])
				for cut := 0; cut < len(body); cut++ {
					t := protowire.AppendBytes(append([]byte(nil), r.Bytes[:tl]...), body[:cut])
					if !seen[string(t)] {
						seen[string(t)] = true
						seeds = append(seeds, seed{md, t})
					}
				}
			}
		}
		// adversarial lengths INSIDE a map entry / packed run / sub-message with the enclosing length kept consistent (a plain
		// substitution makes the outer length wrong and is rejected before the inner one is looked at)
		for _, r := range enum.RecordAlphabet(md, false) {
			_, wt, tl := protowire.ConsumeTag(r.Bytes)
			if wt != protowire.BytesType || tl < 0 {
				continue
			}
			body, bl := protowire.ConsumeBytes(r.Bytes[tl:])
			if bl < 0 {
				continue
			}
			off := 0
			for off < len(body) {
				_, iwt, itl := protowire.ConsumeTag(body[off:])
				if itl < 0 {
					break
				}
				ivl := protowire.ConsumeFieldValue(1, iwt, body[off+itl:])
				if ivl < 0 {
					break
				}
				if iwt == protowire.BytesType {
					_, ll := protowire.ConsumeVarint(body[off+itl:])
					for _, v := range adversarialVarints() {
						nb := append(append(append([]byte(nil), body[:off+itl]...), v...), body[off+itl+ll:]...)
						t := protowire.AppendBytes(append([]byte(nil), r.Bytes[:tl]...), nb)
						if !seen[string(t)] && len(t) <= 200 {
							seen[string(t)] = true
							seeds = append(seeds, seed{md, t})
						}
					}
				}
				off += itl + ivl
			}
		}
		names = append(names, fmt.Sprintf("%s: %d seed encodings", md.FullName(), len(seeds)-n0))
	}
	h.Rep.Bounds["seed_encodings"] = names
	adv := adversarialVarints()
	h.Par(int64(len(seeds)), "edits of valid encodings", func(i int64) {
		s := seeds[i]
		alpha := reducedAlphabet(s.md)
		try := func(b []byte, space string) {
			decode(h, s.md, b, space, true)
			h.Eval(true, hz.HashBytes([]byte(s.md.FullName()), b))
		}
		try(s.b, "seed")
		if h.WantSample() && len(s.b) > 3 {
			m := append([]byte(nil), s.b...)
			m[1] = 0xff
			h.Sample(map[string]interface{}{"type": string(s.md.FullName()), "seed_hex": hex.EncodeToString(s.b), "one_substitution_hex": hex.EncodeToString(m), "one_prefix_hex": hex.EncodeToString(s.b[:len(s.b)-1])})
		}
		for cut := 0; cut < len(s.b); cut++ {
			try(s.b[:cut], "prefix")
		}
		for pos := 0; pos < len(s.b); pos++ {
			for _, a := range alpha {
				if a == s.b[pos] {
					continue
				}
				m := append([]byte(nil), s.b...)
				m[pos] = a
				try(m, "substitution")
			}
			try(append(append([]byte(nil), s.b[:pos]...), s.b[pos+1:]...), "deletion")
			for _, v := range adv {
				m := append(append(append([]byte(nil), s.b[:pos]...), v...), s.b[pos+1:]...)
				try(m, "adversarial-varint")
			}
		}
		for pos := 0; pos <= len(s.b); pos++ {
			for _, a := range alpha {
				m := append(append(append([]byte(nil), s.b[:pos]...), a), s.b[pos:]...)
				try(m, "insertion")
			}
		}
	})
	// allocation proportionality on the adversarial subset, sequentially (GOMAXPROCS irrelevant: one goroutine allocates)
	var ms0, ms1 runtime.MemStats
	checked := 0
	for i := 0; i < len(seeds) && checked < 3000; i += 1 + len(seeds)/3000 {
		s := seeds[i]
		for pos := 0; pos < len(s.b); pos++ {
			for _, v := range adv {
				m := append(append(append([]byte(nil), s.b[:pos]...), v...), s.b[pos+1:]...)
				g := enum.NewGo(s.md)
				runtime.ReadMemStats(&ms0)
				hz.Catch(func() { proto.Unmarshal(m, g) })
				runtime.ReadMemStats(&ms1)
				if d := ms1.TotalAlloc - ms0.TotalAlloc; d > uint64(64*len(m)+64<<10) {
					h.ViolateMin(fmt.Sprintf("C06/allocation/%s", s.md.FullName()), fmt.Sprintf("decoding %d bytes %x into %s allocated %d bytes", len(m), clipb(m), s.md.FullName(), d), bcase{Type: string(s.md.FullName()), Space: "allocation", Bytes: hex.EncodeToString(m)}, len(m))
				}
				checked++
			}
		}
	}
	h.AddExtra("allocation_checked_inputs", checked)
}

// ---- nesting depth -------------------------------------------------------------------------

type hop struct {
	fd protoreflect.FieldDescriptor
}

// recursivePaths returns, per type, cycles T -> ... -> T through message-typed fields (singular,
// oneof member, list element, map value) of length <= 3, as field-number paths.
func recursivePaths(md protoreflect.MessageDescriptor) [][]protoreflect.FieldDescriptor {
	var out [][]protoreflect.FieldDescriptor
	var rec func(cur protoreflect.MessageDescriptor, path []protoreflect.FieldDescriptor)
	rec = func(cur protoreflect.MessageDescriptor, path []protoreflect.FieldDescriptor) {
		if len(path) >= 3 {
			return
		}
		fs := cur.Fields()
		for i := 0; i < fs.Len(); i++ {
			fd := fs.Get(i)
			var next protoreflect.MessageDescriptor
			switch {
			case fd.IsMap():
				if fd.MapValue().Kind() == protoreflect.MessageKind {
					next = fd.MapValue().Message()
				}
			case fd.Kind() == protoreflect.MessageKind:
				next = fd.Message()
			}
			if next == nil || !enum.IsPulsar(next) {
				continue
			}
			p := append(append([]protoreflect.FieldDescriptor(nil), path...), fd)
			if next.FullName() == md.FullName() {
				out = append(out, p)
			} else {
				rec(next, p)
			}
		}
	}
	rec(md, nil)
	return out
}

// nested builds the encoding of `levels` nested messages along the cyclic path (the top message is
// level 1; the innermost message is empty).
func nested(path []protoreflect.FieldDescriptor, levels int) []byte {
	return nestedDev(path, levels, -1, nil)
}

// nestedDev is nested with ONE deviation: the hop out of level devLevel (0-based) uses devFD instead
// of the path's field (devFD must lead to the same message type).
func nestedDev(path []protoreflect.FieldDescriptor, levels int, devLevel int, devFD protoreflect.FieldDescriptor) []byte {
	n := levels - 1 // number of wrappers; wrapper k (1-based from the inside) is the hop out of level n-k
	hop := func(k int) protoreflect.FieldDescriptor {
		lvl := n - k
		if lvl == devLevel && devFD != nil {
			return devFD
		}
		return path[lvl%len(path)]
	}
	sizes := make([]int, n+1)
	for k := 1; k <= n; k++ {
		fd := hop(k)
		inner := sizes[k-1]
		tag := protowire.SizeTag(protowire.Number(fd.Number()))
		if fd.IsMap() {
			entry := 1 + protowire.SizeVarint(uint64(inner)) + inner
			sizes[k] = inner + tag + protowire.SizeVarint(uint64(entry)) + 1 + protowire.SizeVarint(uint64(inner))
		} else {
			sizes[k] = inner + tag + protowire.SizeVarint(uint64(inner))
		}
	}
	out := make([]byte, 0, sizes[n])
	for k := n; k >= 1; k-- {
		fd := hop(k)
		inner := sizes[k-1]
		out = protowire.AppendTag(out, protowire.Number(fd.Number()), protowire.BytesType)
		if fd.IsMap() {
			entry := 1 + protowire.SizeVarint(uint64(inner)) + inner
			out = protowire.AppendVarint(out, uint64(entry))
			out = append(out, 0x12)
		}
		out = protowire.AppendVarint(out, uint64(inner))
	}
	return out
}

func pathNums(path []protoreflect.FieldDescriptor) []int32 {
	var o []int32
	for _, fd := range path {
		o = append(o, int32(fd.Number()))
	}
	return o
}

func pathFrom(md protoreflect.MessageDescriptor, nums []int32) []protoreflect.FieldDescriptor {
	var out []protoreflect.FieldDescriptor
	cur := md
	for _, n := range nums {
		fd := cur.Fields().ByNumber(protoreflect.FieldNumber(n))
		if fd == nil {
			return nil
		}
		out = append(out, fd)
		if fd.IsMap() {
			cur = fd.MapValue().Message()
		} else {
			cur = fd.Message()
		}
	}
	return out
}

func checkDepth(h *hz.H, md protoreflect.MessageDescriptor, nums []int32, levels int) {
	checkDepthDev(h, md, nums, levels, -1, 0)
}

// typeAtLevel returns the message type reached after following the cyclic path for lvl hops.
func typeAtLevel(md protoreflect.MessageDescriptor, path []protoreflect.FieldDescriptor, lvl int) protoreflect.MessageDescriptor {
	cur := md
	for i := 0; i < lvl%len(path); i++ {
		fd := path[i]
		if fd.IsMap() {
			cur = fd.MapValue().Message()
		} else {
			cur = fd.Message()
		}
	}
	return cur
}

func checkDepthDev(h *hz.H, md protoreflect.MessageDescriptor, nums []int32, levels int, devAt int, devNum int32) {
	path := pathFrom(md, nums)
	if path == nil {
		h.InternalError("depth: path does not exist in this schema")
		return
	}
	c := bcase{Type: string(md.FullName()), Space: "depth", Path: nums, Depth: levels}
	var devFD protoreflect.FieldDescriptor
	if devAt >= 0 {
		devFD = typeAtLevel(md, path, devAt).Fields().ByNumber(protoreflect.FieldNumber(devNum))
		if devFD == nil {
			h.InternalError("depth: deviation field does not exist")
			return
		}
		c.DevAt, c.DevFD = devAt+1, devNum // stored 1-based so that 0 means "none"
	}
	in := nestedDev(path, levels, devAt, devFD)
	h.Eval(true, hz.Hash("depth", string(md.FullName()), fmt.Sprint(nums), fmt.Sprint(levels), fmt.Sprint(devAt, devNum)))
	d := enum.NewDyn(md)
	refErr := proto.Unmarshal(in, d)
	g := enum.NewGo(md)
	var err error
	// decoding time must stay proportional to the input: a decoder that visits a payload more than once per level runs
	// for 2^levels steps and never returns
	done := h.Watch(fmt.Sprintf("C06/depth-does-not-terminate/%s/path=%v", md.FullName(), shapePath(path)), fmt.Sprintf("Unmarshal of %d bytes (%d nested message levels along fields %v of %s)", len(in), levels, nums, md.FullName()), c)
	p := hz.Catch(func() { err = proto.Unmarshal(in, g) })
	done()
	if p != nil {
		h.ViolateMin(fmt.Sprintf("C06/depth-panic/%s", md.FullName()), fmt.Sprintf("%d nested levels along %v of %s: Unmarshal panicked: %v", levels, nums, md.FullName(), p), c, levels)
		return
	}
	if (err == nil) != (refErr == nil) {
		dev := ""
		if devFD != nil {
			dev = fmt.Sprintf("/one-%s-hop", shapePath([]protoreflect.FieldDescriptor{devFD}))
		}
		h.ViolateMin(fmt.Sprintf("C06/depth-limit-disagrees/%s/path=%v%s", md.FullName(), shapePath(path), dev), fmt.Sprintf("%d nested message levels along fields %v (deviation %v) of %s: generated decoder err=%v, reference err=%v (nesting beyond the protobuf-go limit must be rejected, not followed)", levels, nums, [2]int32{int32(devAt), devNum}, md.FullName(), err, refErr), c, levels)
		return
	}
	if err == nil && levels <= 2000 {
		if p := hz.Catch(func() { proto.Size(g); proto.Marshal(g); deepRangeN(g.ProtoReflect()) }); p != nil {
			h.ViolateMin(fmt.Sprintf("C06/depth-followup-panic/%s", md.FullName()), fmt.Sprintf("%d nested levels accepted, follow-up panicked: %v", levels, p), c, levels)
		}
	}
}

// nestedWithUnknowns: `levels` messages nested along the cyclic path, every level starting with one small record its
// type does not know, the innermost holding one unknown length-delimited record of `payload` bytes.
func nestedWithUnknowns(md protoreflect.MessageDescriptor, path []protoreflect.FieldDescriptor, levels, payload int) []byte {
	ua := enum.UnknownAlphabet(typeAtLevel(md, path, levels-1), enum.Reduced)
	n, _, _ := protowire.ConsumeTag(ua[1])
	inner := protowire.AppendBytes(protowire.AppendTag(nil, n, protowire.BytesType), bytes.Repeat([]byte{'p'}, payload))
	for lvl := levels - 2; lvl >= 0; lvl-- {
		fd := path[lvl%len(path)]
		rec := append([]byte(nil), enum.UnknownAlphabet(typeAtLevel(md, path, lvl), enum.Reduced)[0]...)
		rec = protowire.AppendTag(rec, protowire.Number(fd.Number()), protowire.BytesType)
		if fd.IsMap() {
			entry := protowire.AppendBytes([]byte{0x12}, inner)
			rec = protowire.AppendBytes(rec, entry)
		} else {
			rec = protowire.AppendBytes(rec, inner)
		}
		inner = rec
	}
	return inner
}

// checkNestedAlloc: the memory a decode allocates stays proportional to the input length however the input is nested
// (a decoder that reserves "the rest of the input" at every level allocates levels x input).
func checkNestedAlloc(h *hz.H, md protoreflect.MessageDescriptor, nums []int32, levels, payload int) {
	path := pathFrom(md, nums)
	if path == nil {
		h.InternalError("nested-alloc: path does not exist in this schema")
		return
	}
	in := nestedWithUnknowns(md, path, levels, payload)
	c := bcase{Type: string(md.FullName()), Space: "nested-alloc", Path: nums, Depth: levels, DevAt: payload}
	h.Eval(true, hz.Hash("nested-alloc", string(md.FullName()), fmt.Sprint(nums), fmt.Sprint(levels, payload)))
	d := enum.NewDyn(md)
	refErr := proto.Unmarshal(in, d)
	var ms0, ms1 runtime.MemStats
	g := enum.NewGo(md)
	var err error
	runtime.ReadMemStats(&ms0)
	p := hz.Catch(func() { err = proto.Unmarshal(in, g) })
	runtime.ReadMemStats(&ms1)
	if p != nil || (err == nil) != (refErr == nil) {
		h.ViolateMin(fmt.Sprintf("C06/nested-unknowns/%s", md.FullName()), fmt.Sprintf("%d levels along %v of %s, an unknown record at every level and %d unknown bytes innermost: panic=%v err=%v, reference err=%v", levels, nums, md.FullName(), payload, p, err, refErr), c, levels)
		return
	}
	alloc := ms1.TotalAlloc - ms0.TotalAlloc
	// generous: 8 x input for copies of the payload, 4 KiB per level for the message structs, 64 KiB slack
	if limit := uint64(8*len(in) + 4096*levels + 64<<10); alloc > limit {
		h.ViolateMin(fmt.Sprintf("C06/allocation-nested/%s/path=%v", md.FullName(), shapePath(path)), fmt.Sprintf("decoding %d bytes (%d levels along fields %v of %s, a small unknown record at every level, %d unknown bytes innermost) allocated %d bytes (limit %d = 8 x input + 4 KiB per level + 64 KiB)", len(in), levels, nums, md.FullName(), payload, alloc, limit), c, levels)
	}
	if r := float64(alloc) / float64(len(in)); r > maxNestedRatio {
		maxNestedRatio = r
	}
}

var maxNestedRatio float64

func runNestedAlloc(h *hz.H, types []protoreflect.MessageDescriptor) {
	n := 0
	for _, md := range types {
		for _, p := range recursivePaths(md) {
			if lite && n >= 40 {
				break
			}
			for _, shape := range [][2]int{{200, 64 << 10}, {50, 1 << 20}, {2000, 4 << 10}} {
				checkNestedAlloc(h, md, pathNums(p), shape[0], shape[1])
				n++
			}
		}
	}
	h.Rep.Bounds["nested_allocation_cases"] = n
	h.AddExtra("nested_allocation_max_bytes_allocated_per_input_byte", fmt.Sprintf("%.2f", maxNestedRatio))
}

// runMergeIntoArtefacts: every C03 record of a type decoded with Merge into targets holding the states plain Go code can
// build (nil list element, nil map value, oneof wrapper holding nil, nil pointer of a oneof wrapper type), in an otherwise
// empty and in a populated message: no panic, and the result can be sized and marshalled.
func runMergeIntoArtefacts(h *hz.H, types []protoreflect.MessageDescriptor) {
	n := 0
	for _, md := range types {
		type art struct {
			name  string
			apply func(p proto.Message) bool
		}
		var arts []art
		fs := md.Fields()
		for i := 0; i < fs.Len(); i++ {
			fd := fs.Get(i)
			switch {
			case fd.IsList() && fd.Kind() == protoreflect.MessageKind, fd.IsMap() && fd.MapValue().Kind() == protoreflect.MessageKind:
				arts = append(arts, art{fmt.Sprintf("nil-element:%d", fd.Number()), func(p proto.Message) bool { return enum.InjectNil(p, int(fd.Number())) }})
			case fd.ContainingOneof() != nil && !fd.ContainingOneof().IsSynthetic() && fd.Kind() == protoreflect.MessageKind:
				arts = append(arts, art{fmt.Sprintf("oneof-wrapper-holding-nil:%d", fd.Number()), func(p proto.Message) bool { return enum.InjectNilOneof(p, fd) }},
					art{fmt.Sprintf("oneof-typed-nil-wrapper:%d", fd.Number()), func(p proto.Message) bool { return enum.InjectTypedNilOneof(p, fd) }})
			}
		}
		if len(arts) == 0 {
			continue
		}
		recs := enum.RecordAlphabet(md, false)
		for _, a := range arts {
			for _, r := range recs {
				if lite && n > 20000 {
					break
				}
				g := enum.NewGo(md)
				ok := false
				if p := hz.Catch(func() { ok = a.apply(g) }); p != nil || !ok {
					continue
				}
				n++
				h.Eval(true, hz.Hash("C06merge", string(md.FullName()), a.name, r.Label))
				var err error
				step := "Unmarshal"
				if p := hz.Catch(func() {
					// a nil pointer of a wrapper type: only the decode itself is judged (AllowPartial: no initialisation walk
					// afterwards) - the generated Range dereferences such a wrapper, which is recorded as an observation
					// outside the listed states (DESIGN section 4), and every follow-up goes through Range or its like
					typedNil := strings.HasPrefix(a.name, "oneof-typed-nil")
					err = proto.UnmarshalOptions{Merge: true, AllowPartial: typedNil}.Unmarshal(r.Bytes, g)
					if err == nil && !typedNil {
						step = "Size"
						proto.Size(g)
						step = "Marshal"
						proto.Marshal(g)
					}
				}); p != nil {
					_ = step
					h.ViolateMin(fmt.Sprintf("C06/merge-into-artefact-panic/%s/%s", md.FullName(), strings.SplitN(a.name, ":", 2)[0]), fmt.Sprintf("Unmarshal{Merge} of record %s (%x) into a %s holding %s panicked (step %s; the accepted result must be sizable and marshallable): %v", r.Label, clipb(r.Bytes), md.FullName(), a.name, step, p), bcase{Type: string(md.FullName()), Space: "merge-into-artefact", Bytes: hex.EncodeToString(r.Bytes), Artefact: a.name}, len(r.Bytes))
				}
			}
		}
	}
	h.Rep.Bounds["merge_into_artefact_decodes"] = n
}

// witnessFor builds unknown bytes of exactly n bytes (n >= 2) that differ from u: one length-delimited record of field 15
// filled with 0x55, preceded by a two-byte varint record where no single record has that size.
func witnessFor(u []byte) []byte {
	n := len(u)
	for _, pre := range [][]byte{nil, {0x78, 0x00}} {
		rest := n - len(pre)
		for k := 1; k <= 5; k++ {
			l := rest - 1 - k
			if l >= 0 && protowire.SizeVarint(uint64(l)) == k {
				w := append([]byte(nil), pre...)
				w = protowire.AppendVarint(append(w, 0x7a), uint64(l))
				w = append(w, bytes.Repeat([]byte{0x55}, l)...)
				if !bytes.Equal(w, u) {
					return w
				}
			}
		}
	}
	return nil
}

// setWitness finds the first message of a (depth-first through populated message fields) that holds unknown bytes and
// gives its counterpart in b other unknown bytes of the same length: proto.Equal then parses both sets.
func setWitness(a, b protoreflect.Message, depth int) bool {
	if depth > 12 || !a.IsValid() || !b.IsValid() {
		return false
	}
	if u := a.GetUnknown(); len(u) >= 2 {
		if w := witnessFor(u); w != nil {
			b.SetUnknown(w)
			return true
		}
	}
	done := false
	a.Range(func(fd protoreflect.FieldDescriptor, v protoreflect.Value) bool {
		switch {
		case fd.IsMap() || fd.IsList() || fd.Message() == nil:
			return true
		case b.Has(fd):
			done = setWitness(v.Message(), b.Mutable(fd).Message(), depth+1)
		}
		return !done
	})
	return done
}

// runUnknownGroupDepth: unknown groups nested around protowire's limit (10001 levels), at the top level and one message
// level down: whatever the decoder accepts and keeps must be readable again by protobuf-go (proto.Equal parses it).
func runUnknownGroupDepth(h *hz.H, types []protoreflect.MessageDescriptor) {
	n := 0
	for _, md := range types {
		if lite && n >= 16 {
			break
		}
		ua := enum.UnknownAlphabet(md, enum.Reduced)
		num, _, _ := protowire.ConsumeTag(ua[0])
		for _, levels := range []int{10000, 10001, 10002, 10003, 20000} {
			in := append(bytes.Repeat(protowire.AppendTag(nil, num, protowire.StartGroupType), levels), bytes.Repeat(protowire.AppendTag(nil, num, protowire.EndGroupType), levels)...)
			decode(h, md, in, "unknown-group-depth", true)
			h.Eval(true, hz.Hash("ugd", string(md.FullName()), fmt.Sprint(levels)))
			n++
			// the same one message level down, through the first singular message field of a pulsar type
			fs := md.Fields()
			for i := 0; i < fs.Len(); i++ {
				fd := fs.Get(i)
				if fd.Message() == nil || fd.IsList() || fd.IsMap() || !enum.IsPulsar(fd.Message()) {
					continue
				}
				ub := enum.UnknownAlphabet(fd.Message(), enum.Reduced)
				inum, _, _ := protowire.ConsumeTag(ub[0])
				inner := append(bytes.Repeat(protowire.AppendTag(nil, inum, protowire.StartGroupType), levels), bytes.Repeat(protowire.AppendTag(nil, inum, protowire.EndGroupType), levels)...)
				decode(h, md, protowire.AppendBytes(protowire.AppendTag(nil, protowire.Number(fd.Number()), protowire.BytesType), inner), "unknown-group-depth", true)
				h.Eval(true, hz.Hash("ugd1", string(md.FullName()), fmt.Sprint(levels)))
				n++
				break
			}
		}
	}
	h.Rep.Bounds["unknown_group_depth_decodes"] = n
}

func deepRangeN(m protoreflect.Message) { deepRange(m, -100000) }

func shapePath(path []protoreflect.FieldDescriptor) string {
	var s []string
	for _, fd := range path {
		switch {
		case fd.IsMap():
			s = append(s, "map-value")
		case fd.IsList():
			s = append(s, "list")
		case fd.ContainingOneof() != nil && !fd.ContainingOneof().IsSynthetic():
			s = append(s, "oneof")
		default:
			s = append(s, "singular")
		}
	}
	return strings.Join(s, ">")
}

func runDepth(h *hz.H, types []protoreflect.MessageDescriptor) {
	depths := []int{1, 2, 100, 9998, 9999, 10000, 10001, 10002, 20000}
	var names []string
	type job struct {
		md    protoreflect.MessageDescriptor
		nums  []int32
		depth int
	}
	var jobs []job
	var big []job
	for _, md := range types {
		paths := recursivePaths(md)
		if len(paths) == 0 {
			continue
		}
		for _, p := range paths {
			for _, d := range depths {
				jobs = append(jobs, job{md, pathNums(p), d})
			}
			big = append(big, job{md, pathNums(p), 100000})
			if h.Thorough() {
				big = append(big, job{md, pathNums(p), 1000000})
			}
		}
		names = append(names, fmt.Sprintf("%s: %d recursive paths", md.FullName(), len(paths)))
	}
	// single-deviation paths: one hop (at a level near the top or near the limit) goes through a
	// different field leading to the same type
	type djob struct {
		md     protoreflect.MessageDescriptor
		nums   []int32
		depth  int
		at     int
		devNum int32
	}
	var djobs []djob
	for _, md := range types {
		paths := recursivePaths(md)
		for _, p := range paths {
			for hopIdx := range p {
				from := typeAtLevel(md, p, hopIdx)
				var target protoreflect.MessageDescriptor
				if p[hopIdx].IsMap() {
					target = p[hopIdx].MapValue().Message()
				} else {
					target = p[hopIdx].Message()
				}
				fs := from.Fields()
				for i := 0; i < fs.Len(); i++ {
					alt := fs.Get(i)
					var t2 protoreflect.MessageDescriptor
					if alt.IsMap() {
						if alt.MapValue().Kind() == protoreflect.MessageKind {
							t2 = alt.MapValue().Message()
						}
					} else if alt.Kind() == protoreflect.MessageKind {
						t2 = alt.Message()
					}
					if t2 == nil || t2.FullName() != target.FullName() || alt.Number() == p[hopIdx].Number() {
						continue
					}
					levelsNear := []int{0, 1, 2, 3}
					for l := 9990; l <= 10001; l++ {
						levelsNear = append(levelsNear, l)
					}
					for _, at := range levelsNear {
						if at%len(p) != hopIdx {
							continue
						}
						for _, depth := range []int{at + 2, 10000, 10001, 12000} {
							if depth >= at+2 {
								djobs = append(djobs, djob{md, pathNums(p), depth, at, int32(alt.Number())})
							}
						}
					}
				}
			}
		}
	}
	if !h.Thorough() && len(djobs) > 4000 {
		// keep every (path, deviation field) but thin the levels: quick tier
		var keep []djob
		for i, j := range djobs {
			if j.at >= 9996 && j.at <= 10000 || j.at == 0 || i%7 == 0 {
				keep = append(keep, j)
			}
		}
		djobs = keep
	}
	h.Rep.Bounds["single_deviation_depth_cases"] = len(djobs)
	h.Par(int64(len(djobs)), "nesting depths with one deviating hop", func(i int64) {
		j := djobs[i]
		checkDepthDev(h, j.md, j.nums, j.depth, j.at, j.devNum)
	})
	h.Rep.Bounds["recursive_paths"] = names
	h.Sample(map[string]interface{}{"space": "depth", "type": string(jobs[0].md.FullName()), "path_field_numbers": jobs[0].nums, "depths": depths})
	h.Rep.Bounds["depths_in_process"] = depths
	if len(jobs) == 0 {
		if !lite {
			h.InternalError("vacuous: no recursive type found")
		}
		return
	}
	if lite {
		var keep []job
		for _, j := range jobs {
			if j.depth == 10000 || j.depth == 10001 || j.depth == 2 {
				keep = append(keep, j)
			}
		}
		jobs = keep
		big = nil
	}
	// in-process depths run on big stacks sequentially per worker
	h.Par(int64(len(jobs)), "nesting depths", func(i int64) {
		j := jobs[i]
		checkDepth(h, j.md, j.nums, j.depth)
	})
	// huge depths: isolated child, the exit status is the observation
	self, _ := os.Executable()
	if !h.Thorough() && len(big) > 12 {
		big = big[:12]
	}
	h.Rep.Bounds["depths_in_child_process"] = "100000 (thorough: also 1000000)"
	h.Par(int64(len(big)), "huge nesting depths in child processes", func(i int64) {
		j := big[i]
		cmd := exec.Command("/bin/sh", "-c", fmt.Sprintf("ulimit -v 8000000; exec timeout 120 %s -child-depth %s %s %d", self, j.md.FullName(), strings.Trim(strings.ReplaceAll(fmt.Sprint(j.nums), " ", ","), "[]"), j.depth))
		out, err := cmd.CombinedOutput()
		h.Eval(true, hz.Hash("bigdepth", string(j.md.FullName()), fmt.Sprint(j.nums), fmt.Sprint(j.depth)))
		c := bcase{Type: string(j.md.FullName()), Space: "depth", Path: j.nums, Depth: j.depth}
		if err != nil || !strings.Contains(string(out), "CHILD-OK rejected") {
			tail := string(out)
			if len(tail) > 300 {
				tail = tail[:300]
			}
			h.ViolateMin(fmt.Sprintf("C06/depth-child/%s", j.md.FullName()), fmt.Sprintf("%d nested levels along %v of %s: child process did not cleanly reject the input (err=%v): %s", j.depth, j.nums, j.md.FullName(), err, tail), c, j.depth)
		}
	})
}

func childDepth() {
	// args: -child-depth <type> <comma path> <depth>
	md := findType(os.Args[2])
	var nums []int32
	for _, s := range strings.Split(os.Args[3], ",") {
		var n int32
		fmt.Sscan(s, &n)
		nums = append(nums, n)
	}
	var depth int
	fmt.Sscan(os.Args[4], &depth)
	path := pathFrom(md, nums)
	in := nested(path, depth)
	g := enum.NewGo(md)
	err := proto.Unmarshal(in, g)
	if err != nil {
		fmt.Println("CHILD-OK rejected:", err)
	} else {
		fmt.Println("CHILD-ACCEPTED")
	}
}
