// regen: re-runs the working-tree plugin on the schemas of the checked-in generated packages
// (descriptors taken from the registry; there is no protoc in the sandbox) and writes the output
// next to a comparison with the committed files. Used (a) to regenerate *.pulsar.go after a template
// fix and (b) as information for C19.
package main

import (
	"flag"
	"fmt"
	"os"
	"path/filepath"

	"github.com/cosmos/cosmos-proto/internal/zzverif/schema"
	"google.golang.org/protobuf/reflect/protodesc"
	"google.golang.org/protobuf/reflect/protoregistry"
	"google.golang.org/protobuf/types/descriptorpb"

	_ "github.com/cosmos/cosmos-proto/internal/testprotos/test3"
	_ "github.com/cosmos/cosmos-proto/testpb"
)

var sets = map[string][]string{
	"testpb": {"1.proto", "2.proto", "3.proto"},
	"internal/testprotos/test3": {"internal/testprotos/test3/test.proto", "internal/testprotos/test3/test_import.proto", "internal/testprotos/test3/test_nesting.proto"},
}

func main() {
	plugin := flag.String("plugin", "", "plugin binary")
	repo := flag.String("repo", "/repo", "repository root (committed files to compare with)")
	out := flag.String("out", "", "output dir")
	write := flag.Bool("write", false, "overwrite the committed files under -repo with the regenerated ones")
	flag.Parse()
	rc := 0
	for dir, names := range sets {
		var files []*descriptorpb.FileDescriptorProto
		for _, n := range names {
			fd, err := protoregistry.GlobalFiles.FindFileByPath(n)
			if err != nil {
				fmt.Fprintln(os.Stderr, "not registered:", n, err)
				os.Exit(2)
			}
			files = append(files, protodesc.ToFileDescriptorProto(fd))
		}
		req := schema.Request(files, names, "paths=source_relative")
		req.CompilerVersion = nil // the committed files were produced through buf: "protoc (unknown)"
		res := schema.RunPlugin(*plugin, req, nil, "")
		if res.Err != nil || res.ExitCode != 0 || res.Resp.GetError() != "" {
			fmt.Fprintf(os.Stderr, "plugin failed for %s: %v %d %s %s\n", dir, res.Err, res.ExitCode, res.Resp.GetError(), res.Stderr)
			os.Exit(2)
		}
		for _, f := range res.Resp.GetFile() {
			base := filepath.Base(f.GetName())
			committed := filepath.Join(*repo, dir, base)
			old, _ := os.ReadFile(committed)
			same := string(old) == f.GetContent()
			fmt.Printf("%s/%s identical=%v\n", dir, base, same)
			if !same {
				rc = 1
			}
			if *out != "" {
				os.MkdirAll(filepath.Join(*out, dir), 0o755)
				schema.MustWrite(filepath.Join(*out, dir, base), []byte(f.GetContent()))
			}
			if *write && !same {
				schema.MustWrite(committed, []byte(f.GetContent()))
			}
		}
	}
	os.Exit(rc)
}
