package main

import (
	"google.golang.org/protobuf/reflect/protoreflect"
	"google.golang.org/protobuf/runtime/protoiface"
)

// A yielding proxy delegates every protoreflect call to the real generated object after handing
// control to the scheduler. It reports no fast-path methods, so protobuf-go's generic algorithms
// (Size, Marshal, Equal, Clone, JSON) walk it with Range/Get/Has - every such call is a scheduling point.

type yielder interface{ Point(what string) }

type pMsg struct {
	m protoreflect.Message
	y yielder
}

func (p *pMsg) ProtoReflect() protoreflect.Message { return p }

func wrapV(fd protoreflect.FieldDescriptor, v protoreflect.Value, y yielder) protoreflect.Value {
	if !v.IsValid() {
		return v
	}
	switch {
	case fd.IsList():
		return protoreflect.ValueOfList(&pList{v.List(), fd, y})
	case fd.IsMap():
		return protoreflect.ValueOfMap(&pMap{v.Map(), fd, y})
	case fd.Kind() == protoreflect.MessageKind || fd.Kind() == protoreflect.GroupKind:
		return protoreflect.ValueOfMessage(&pMsg{v.Message(), y})
	}
	return v
}

func (p *pMsg) Descriptor() protoreflect.MessageDescriptor { return p.m.Descriptor() }
func (p *pMsg) Type() protoreflect.MessageType             { return p.m.Type() }
func (p *pMsg) New() protoreflect.Message                  { return p.m.New() }
func (p *pMsg) Interface() protoreflect.ProtoMessage       { return p }
func (p *pMsg) Range(f func(protoreflect.FieldDescriptor, protoreflect.Value) bool) {
	p.y.Point("Range")
	p.m.Range(func(fd protoreflect.FieldDescriptor, v protoreflect.Value) bool {
		p.y.Point("Range-callback")
		return f(fd, wrapV(fd, v, p.y))
	})
}
func (p *pMsg) Has(fd protoreflect.FieldDescriptor) bool { p.y.Point("Has"); return p.m.Has(fd) }
func (p *pMsg) Clear(fd protoreflect.FieldDescriptor)    { panic("proxy: write through a reader") }
func (p *pMsg) Get(fd protoreflect.FieldDescriptor) protoreflect.Value {
	p.y.Point("Get")
	return wrapV(fd, p.m.Get(fd), p.y)
}
func (p *pMsg) Set(protoreflect.FieldDescriptor, protoreflect.Value) {
	panic("proxy: write through a reader")
}
func (p *pMsg) Mutable(protoreflect.FieldDescriptor) protoreflect.Value {
	panic("proxy: write through a reader")
}
func (p *pMsg) NewField(fd protoreflect.FieldDescriptor) protoreflect.Value { return p.m.NewField(fd) }
func (p *pMsg) WhichOneof(od protoreflect.OneofDescriptor) protoreflect.FieldDescriptor {
	p.y.Point("WhichOneof")
	return p.m.WhichOneof(od)
}
func (p *pMsg) GetUnknown() protoreflect.RawFields { p.y.Point("GetUnknown"); return p.m.GetUnknown() }
func (p *pMsg) SetUnknown(protoreflect.RawFields)  { panic("proxy: write through a reader") }
func (p *pMsg) IsValid() bool                      { return p.m.IsValid() }
func (p *pMsg) ProtoMethods() *protoiface.Methods  { return nil }

type pList struct {
	l  protoreflect.List
	fd protoreflect.FieldDescriptor
	y  yielder
}

func (p *pList) Len() int { p.y.Point("List.Len"); return p.l.Len() }
func (p *pList) Get(i int) protoreflect.Value {
	p.y.Point("List.Get")
	v := p.l.Get(i)
	if p.fd.Kind() == protoreflect.MessageKind {
		return protoreflect.ValueOfMessage(&pMsg{v.Message(), p.y})
	}
	return v
}
func (p *pList) Set(int, protoreflect.Value)       { panic("proxy: write through a reader") }
func (p *pList) Append(protoreflect.Value)         { panic("proxy: write through a reader") }
func (p *pList) AppendMutable() protoreflect.Value { panic("proxy: write through a reader") }
func (p *pList) Truncate(int)                      { panic("proxy: write through a reader") }
func (p *pList) NewElement() protoreflect.Value    { return p.l.NewElement() }
func (p *pList) IsValid() bool                     { return p.l.IsValid() }

type pMap struct {
	m  protoreflect.Map
	fd protoreflect.FieldDescriptor
	y  yielder
}

func (p *pMap) Len() int { p.y.Point("Map.Len"); return p.m.Len() }
func (p *pMap) Range(f func(protoreflect.MapKey, protoreflect.Value) bool) {
	p.y.Point("Map.Range")
	// collect first, so that the Go map iterator itself is not suspended across a scheduling point
	type kv struct {
		k protoreflect.MapKey
		v protoreflect.Value
	}
	var es []kv
	p.m.Range(func(k protoreflect.MapKey, v protoreflect.Value) bool { es = append(es, kv{k, v}); return true })
	for _, e := range es {
		p.y.Point("Map.Range-callback")
		v := e.v
		if p.fd.MapValue().Kind() == protoreflect.MessageKind {
			v = protoreflect.ValueOfMessage(&pMsg{v.Message(), p.y})
		}
		if !f(e.k, v) {
			return
		}
	}
}
func (p *pMap) Has(k protoreflect.MapKey) bool { p.y.Point("Map.Has"); return p.m.Has(k) }
func (p *pMap) Clear(protoreflect.MapKey)      { panic("proxy: write through a reader") }
func (p *pMap) Get(k protoreflect.MapKey) protoreflect.Value {
	p.y.Point("Map.Get")
	v := p.m.Get(k)
	if v.IsValid() && p.fd.MapValue().Kind() == protoreflect.MessageKind {
		return protoreflect.ValueOfMessage(&pMsg{v.Message(), p.y})
	}
	return v
}
func (p *pMap) Set(protoreflect.MapKey, protoreflect.Value) { panic("proxy: write through a reader") }
func (p *pMap) Mutable(protoreflect.MapKey) protoreflect.Value {
	panic("proxy: write through a reader")
}
func (p *pMap) NewValue() protoreflect.Value { return p.m.NewValue() }
func (p *pMap) IsValid() bool                { return p.m.IsValid() }
