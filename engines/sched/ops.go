package main

import (
	"fmt"
	"strings"

	"github.com/cosmos/cosmos-proto/internal/zzverif/enum"
	"google.golang.org/protobuf/encoding/protojson"
	"google.golang.org/protobuf/proto"
	"google.golang.org/protobuf/reflect/protoreflect"
)

// readOp is one read-only operation of the property's alphabet. It receives the shared message as
// the harness sees it (the real object in the race pass, the yielding proxy under the scheduler),
// plus an independently built equal message for comparisons, and returns a rendering of its result.
type readOp struct {
	name string
	f    func(shared proto.Message, twin proto.Message) string
}

func deepRange(m protoreflect.Message, sb *strings.Builder, depth int) {
	if depth > 6 {
		return
	}
	m.Range(func(fd protoreflect.FieldDescriptor, v protoreflect.Value) bool {
		fmt.Fprintf(sb, "%d;", fd.Number())
		switch {
		case fd.IsList():
			l := v.List()
			for i := 0; i < l.Len(); i++ {
				e := l.Get(i)
				if fd.Kind() == protoreflect.MessageKind {
					deepRange(e.Message(), sb, depth+1)
				}
			}
		case fd.IsMap():
			n := 0
			v.Map().Range(func(k protoreflect.MapKey, mv protoreflect.Value) bool {
				n++
				if fd.MapValue().Kind() == protoreflect.MessageKind {
					var inner strings.Builder
					deepRange(mv.Message(), &inner, depth+1)
					_ = inner
				}
				return true
			})
			fmt.Fprintf(sb, "m%d;", n)
		case fd.Kind() == protoreflect.MessageKind:
			deepRange(v.Message(), sb, depth+1)
		}
		return true
	})
}

var readOps = []readOp{
	{"Size", func(s, t proto.Message) string { return fmt.Sprint(proto.Size(s)) }},
	{"Marshal", func(s, t proto.Message) string {
		b, err := proto.Marshal(s)
		// map order may differ between calls in non-deterministic mode: render as decoded value
		d := enum.NewDyn(s.ProtoReflect().Descriptor())
		if err != nil || proto.Unmarshal(b, d) != nil {
			return "error"
		}
		return fmt.Sprintf("%d:%s", len(b), enum.Canon(d, false))
	}},
	{"Marshal(Deterministic)", func(s, t proto.Message) string {
		b, err := proto.MarshalOptions{Deterministic: true}.Marshal(s)
		return fmt.Sprintf("%x %v", b, err != nil)
	}},
	{"Has+Get(all)", func(s, t proto.Message) string {
		m := s.ProtoReflect()
		var sb strings.Builder
		fs := m.Descriptor().Fields()
		for i := 0; i < fs.Len(); i++ {
			fd := fs.Get(i)
			fmt.Fprintf(&sb, "%v", m.Has(fd))
			v := m.Get(fd)
			switch {
			case fd.IsList():
				fmt.Fprintf(&sb, "l%d,", v.List().Len())
			case fd.IsMap():
				fmt.Fprintf(&sb, "m%d,", v.Map().Len())
			case fd.Kind() == protoreflect.MessageKind:
				fmt.Fprintf(&sb, "v%v,", v.Message().IsValid())
			default:
				fmt.Fprintf(&sb, "%v,", v.Interface())
			}
		}
		return sb.String()
	}},
	{"Range(deep)", func(s, t proto.Message) string {
		var sb strings.Builder
		deepRange(s.ProtoReflect(), &sb, 0)
		// Range order is unspecified for maps only through counts: sort-insensitive rendering
		parts := strings.Split(sb.String(), ";")
		return fmt.Sprint(len(parts), sumLens(parts))
	}},
	{"WhichOneof(all)", func(s, t proto.Message) string {
		m := s.ProtoReflect()
		var sb strings.Builder
		os := m.Descriptor().Oneofs()
		for i := 0; i < os.Len(); i++ {
			if w := m.WhichOneof(os.Get(i)); w != nil {
				sb.WriteString(string(w.Name()))
			}
			sb.WriteByte(',')
		}
		return sb.String()
	}},
	{"Equal(shared,twin)", func(s, t proto.Message) string { return fmt.Sprint(proto.Equal(s, t), proto.Equal(t, s)) }},
	{"Clone-from", func(s, t proto.Message) string {
		c := proto.Clone(s)
		return enum.Canon(c.ProtoReflect(), false)
	}},
	{"protojson.Marshal", func(s, t proto.Message) string {
		b, err := protojson.Marshal(s)
		return fmt.Sprintf("%s %v", strings.Join(strings.Fields(string(b)), ""), err != nil)
	}},
}

// directOps only make sense on the real object (they are methods of the generated Go type).
var directOps = []readOp{
	{"String", func(s, t proto.Message) string {
		if x, ok := s.(fmt.Stringer); ok {
			return x.String()
		}
		return ""
	}},
	{"legacy Descriptor()", func(s, t proto.Message) string {
		if x, ok := s.(interface{ Descriptor() ([]byte, []int) }); ok {
			b, idx := x.Descriptor()
			return fmt.Sprint(len(b), idx)
		}
		return ""
	}},
	{"ProtoReflect().Type()/Descriptor()", func(s, t proto.Message) string {
		m := s.ProtoReflect()
		return string(m.Type().Descriptor().FullName()) + string(m.Descriptor().FullName())
	}},
}

func sumLens(parts []string) int {
	n := 0
	for _, p := range parts {
		for _, c := range p {
			n += int(c)
		}
	}
	return n
}

// richValue builds a fairly populated value of md: one representative candidate for (almost) every slot.
func richValue(md protoreflect.MessageDescriptor, variant int) protoreflect.Message {
	sp := enum.NewSpace(md, enum.Opts{Top: enum.Reduced, MaxDepth: 1})
	d := enum.NewDyn(md)
	used := map[string]bool{}
	for _, sl := range sp.Slots {
		if sl.Oneof != "" {
			if used[sl.Oneof] {
				continue
			}
			used[sl.Oneof] = true
		}
		n := 0
		for _, c := range sl.Cands {
			if !c.Rep {
				continue
			}
			if n == variant%2 {
				c.Apply(d)
				break
			}
			n++
		}
	}
	return d
}
