// Engine "sched" (C11): concurrent readers of a shared message.
// Part A (this binary built normally): every interleaving of a 2-3 goroutine reader harness under a
// cooperative scheduler whose scheduling points are the calls the generic protobuf-go algorithms make
// on a yielding proxy of the shared message; state caching on (program counters, struct snapshot).
// Part B (this binary built with -race, started by part A): the same operation bodies free-running on
// real goroutines for every ordered pair / triple of operations; oracle = the Go race detector.
package main

import (
	"bufio"
	"encoding/json"
	"fmt"
	"os"
	"os/exec"
	"path/filepath"
	"regexp"
	"sort"
	"strings"
	"sync"
	"time"

	"github.com/cosmos/cosmos-proto/internal/zzverif/enum"
	"github.com/cosmos/cosmos-proto/internal/zzverif/hz"
	"github.com/cosmos/cosmos-proto/internal/zzverif/zzyield"
	"google.golang.org/protobuf/proto"
	"google.golang.org/protobuf/reflect/protoreflect"
)

type c11case struct {
	Part     string   `json:"part"`
	Type     string   `json:"type"`
	Variant  int      `json:"value_variant"`
	Ops      []string `json:"operations"`
	Schedule []int    `json:"schedule,omitempty"`
	Race     string   `json:"race_report,omitempty"`
}

func targetTypes() []protoreflect.MessageDescriptor {
	want := []string{"A", "goproto.proto.test3.TestAllTypes", "mx.Sing", "mx.Leaf", "mx.Maps", "mx.One", "mx.Rep", "goproto.proto.test3.MultiLayeredNesting"}
	if os.Getenv("VERIF_TYPES") != "" {
		var out []protoreflect.MessageDescriptor
		for _, md := range enum.TypesMatching(os.Getenv("VERIF_TYPES")) {
			out = append(out, md)
		}
		return out
	}
	var out []protoreflect.MessageDescriptor
	for _, md := range enum.PulsarTypes() {
		for _, w := range want {
			if string(md.FullName()) == w {
				out = append(out, md)
			}
		}
	}
	return out
}

func main() {
	h := hz.New()
	enum.SnapshotHeaders = true // a read that re-slices a field has written to the shared struct
	if h.Prop != "C11" {
		fmt.Fprintln(os.Stderr, "INTERNAL: engine sched serves C11 only")
		os.Exit(2)
	}
	if raceEnabled {
		runRacePass(h)
		h.Finish()
	}
	if h.Replay != "" {
		var c c11case
		h.LoadReplay(&c)
		if c.Part == "B" {
			mergeRacePass(h, &c)
		} else {
			replaySchedule(h, c)
		}
		h.Eval(true, 1)
		h.Eval(true, 2)
		h.Finish()
	}
	if h.NShards > 0 {
		// shard process of Part A: harnesses run strictly one after another in this process, because
		// package-level state of the code under test (lazily built globals) is shared by everything in it
		runScheduler(h)
		h.Finish()
	}
	runShards(h)
	mergeRacePass(h, nil)
	h.Rep.Rule = "Part A: for each (message, tuple of read operations) every interleaving at the scheduling points (each Range/Get/Has/WhichOneof/List/Map call the generic algorithms make on the yielding proxy, and operation boundaries), explored by DFS with state caching on (program counters, deep struct snapshot) and iterative preemption bounding; state invariant: struct snapshot unchanged, each thread's result == its sequential result, no deadlock. Part B: every ordered pair (thorough: triple) of operations x message x fresh unprimed object, free-running under the Go race detector. non-trivial = executions with >=2 threads; distinct = hash(message, ops, schedule) / hash(message, ops)"
	h.Rep.Assumptions = []string{"scheduling points are at the granularity of protoreflect calls: interleavings inside one generated closure are not enumerated; any behaviourally relevant interference there needs an unsynchronised write, which the race pass (Part B) reports whatever the timing", "the Go race detector's happens-before analysis; hardware memory ordering is not modelled", "sync.Once inside the legacy Descriptor() path is exercised by Part B only (no Once shim was built)"}
	h.Finish()
}

// ---------------------------------------------------------------------------------------------
// Part A: cooperative scheduler

type thread struct {
	id     int
	resume chan struct{}
	done   bool
	result []string
	pc     int
}

type sched struct {
	threads []*thread
	toSched chan int // thread id reporting "at a point" (or -1-id for "finished")
	cur     *thread
}

type tYield struct {
	s *sched
	t *thread
}

func (y tYield) Point(what string) {
	y.t.pc++
	y.s.toSched <- y.t.id
	<-y.t.resume
}

type execResult struct {
	choices  []int   // index into enabled set at each choice point
	enabled  [][]int // enabled thread ids at each choice point (canonical order)
	running  []int   // thread that was running before the point (-1 at start)
	states   []string
	results  [][]string
	snapshot bool // false: the shared struct changed at some state
	badAt    int
	diverged bool
}

// execute runs the harness following prefix (indexes into the canonical enabled list), then always
// choice 0 (keep running the current thread if it is enabled, else the lowest id).
// buildShared materialises the value. Variants 0/1 build the struct field by field (exact-size slices); variants
// 2/3 decode the reference encoding with the generated decoder, the way shared messages usually come to be
// (slices grown by append, spare capacity); variants 4/5 add the nil artefacts plain Go code can build. Every variant
// but 0 holds unknown records out of field-number order (top level and singular sub-messages).
func buildShared(d protoreflect.Message, variant int) proto.Message {
	if variant == 0 {
		return enum.BuildGo(d)
	}
	if variant == 1 {
		g := enum.BuildGo(d)
		addUnknowns(g)
		return g
	}
	if variant == 5 || variant == 6 {
		// every singular google.protobuf.Any field carries a payload of this very (pulsar) type whose unknown records are
		// separated by known fields: JSON marshalling decodes that payload out of the shared message's own bytes.
		// Variant 6: the payload is a pulsar message holding a string-keyed map with 200 entries (whatever a decoder keeps
		// per key across calls - an intern table, a scratch buffer - is then written on every concurrent decode)
		g := enum.BuildGo(d)
		addUnknowns(g)
		md := d.Descriptor()
		ua := enum.UnknownAlphabet(md, enum.Reduced)
		inner, _ := proto.MarshalOptions{Deterministic: true}.Marshal(richValue(md, 0).Interface())
		payload := append(append(append([]byte(nil), ua[0]...), inner...), ua[1]...)
		pmd := md
		if variant == 6 {
			if bmd, pb := bigStringMapPayload(); bmd != nil {
				pmd, payload = bmd, pb
			}
		}
		m := enum.Slow(g)
		fs := md.Fields()
		for i := 0; i < fs.Len(); i++ {
			fd := fs.Get(i)
			if fd.Message() == nil || fd.Message().FullName() != "google.protobuf.Any" || fd.IsList() || fd.IsMap() || fd.ContainingOneof() != nil {
				continue
			}
			a := m.Mutable(fd).Message()
			a.Set(a.Descriptor().Fields().ByName("type_url"), protoreflect.ValueOfString("/"+string(pmd.FullName())))
			a.Set(a.Descriptor().Fields().ByName("value"), protoreflect.ValueOfBytes(append([]byte(nil), payload...)))
		}
		return g
	}
	if variant >= 4 {
		// what plain Go code can build: a nil element in every message list, a nil value in every message map, the first
		// message-kind member of every oneof selected with nil inside its wrapper
		g := enum.BuildGo(d)
		addUnknowns(g)
		fs := d.Descriptor().Fields()
		doneOneof := map[string]bool{}
		for i := 0; i < fs.Len(); i++ {
			fd := fs.Get(i)
			switch {
			case fd.IsList() && fd.Kind() == protoreflect.MessageKind, fd.IsMap() && fd.MapValue().Kind() == protoreflect.MessageKind:
				enum.InjectNil(g, int(fd.Number()))
			case fd.ContainingOneof() != nil && !fd.ContainingOneof().IsSynthetic() && fd.Kind() == protoreflect.MessageKind && !doneOneof[string(fd.ContainingOneof().Name())]:
				if enum.InjectNilOneof(g, fd) {
					doneOneof[string(fd.ContainingOneof().Name())] = true
				}
			}
		}
		return g
	}
	b, err := proto.MarshalOptions{Deterministic: true}.Marshal(d.Interface())
	if err != nil {
		panic(err)
	}
	// unknown records around the known ones, the higher field number first
	hi, lo := unknownPair(d.Descriptor())
	b = append(append(append([]byte(nil), hi...), b...), lo...)
	g := enum.NewGo(d.Descriptor())
	if err := proto.Unmarshal(b, g); err != nil {
		panic(err)
	}
	return g
}

// unknownPair: two unknown records of md, the first with the higher field number (a shared message received from a
// newer peer holds its unknown records in arrival order, which need not be field-number order).
func unknownPair(md protoreflect.MessageDescriptor) (hi, lo []byte) {
	ua := enum.UnknownAlphabet(md, enum.Boundary)
	return ua[3], ua[1]
}

// addUnknowns gives g and every populated singular message field of g out-of-order unknown records.
func addUnknowns(g proto.Message) {
	m := g.ProtoReflect()
	hi, lo := unknownPair(m.Descriptor())
	m.SetUnknown(append(append([]byte(nil), hi...), lo...))
	m.Range(func(fd protoreflect.FieldDescriptor, v protoreflect.Value) bool {
		if fd.Message() != nil && !fd.IsList() && !fd.IsMap() {
			if sub := v.Message(); sub.IsValid() {
				h2, l2 := unknownPair(sub.Descriptor())
				sub.SetUnknown(append(append([]byte(nil), h2...), l2...))
			}
		}
		return true
	})
}

var bigPayload struct {
	once sync.Once
	md   protoreflect.MessageDescriptor
	b    []byte
}

// bigStringMapPayload: the encoding of a pulsar message whose first map<string, scalar> field holds 200 entries.
func bigStringMapPayload() (protoreflect.MessageDescriptor, []byte) {
	bigPayload.once.Do(func() {
		for _, md := range enum.TypesMatching("") {
			fs := md.Fields()
			for i := 0; i < fs.Len(); i++ {
				fd := fs.Get(i)
				if !fd.IsMap() || fd.MapKey().Kind() != protoreflect.StringKind || fd.MapValue().Kind() == protoreflect.MessageKind || fd.MapValue().Kind() == protoreflect.EnumKind {
					continue
				}
				dm := enum.NewDyn(md)
				mp := dm.Mutable(fd).Map()
				for k := 0; k < 200; k++ {
					mp.Set(protoreflect.ValueOfString(fmt.Sprintf("key%03d", k)).MapKey(), mp.NewValue())
				}
				b, err := proto.MarshalOptions{Deterministic: true}.Marshal(dm.Interface())
				if err == nil {
					bigPayload.md, bigPayload.b = md, b
					return
				}
			}
		}
	})
	return bigPayload.md, bigPayload.b
}

func hasAnyField(md protoreflect.MessageDescriptor) bool {
	fs := md.Fields()
	for i := 0; i < fs.Len(); i++ {
		fd := fs.Get(i)
		if fd.Message() != nil && fd.Message().FullName() == "google.protobuf.Any" && !fd.IsList() && !fd.IsMap() && fd.ContainingOneof() == nil {
			return true
		}
	}
	return false
}

func execute(md protoreflect.MessageDescriptor, variant int, ops [][]readOp, prefix []int) execResult {
	d := richValue(md, variant)
	shared := buildShared(d, variant)
	snap0 := enum.Snapshot(shared)
	s := &sched{toSched: make(chan int)}
	var res execResult
	res.snapshot = true
	for i := range ops {
		t := &thread{id: i, resume: make(chan struct{})}
		s.threads = append(s.threads, t)
	}
	// scheduling points inside the generated fast-path closures (instrumented copies): attributed to the
	// thread the scheduler is currently running - exactly one runs at a time
	zzyield.Set(func(what string) {
		if s.cur != nil {
			tYield{s, s.cur}.Point(what)
		}
	})
	defer zzyield.Set(nil)
	for i, t := range s.threads {
		i, t := i, t
		go func() {
			<-t.resume
			y := tYield{s, t}
			px := &pMsg{shared.ProtoReflect(), y}
			twin := enum.BuildGo(d)
			for _, op := range ops[i] {
				y.Point("op-boundary")
				var r string
				var target proto.Message = px
				if strings.HasSuffix(op.name, "[fast path]") {
					target = shared // the real object: its generated closures run, yielding at the instrumented points
				}
				if p := hz.Catch(func() { r = op.f(target, twin) }); p != nil {
					r = fmt.Sprintf("PANIC: %v", p)
				}
				t.result = append(t.result, r)
			}
			t.done = true
			s.toSched <- -1 - t.id
		}()
	}
	running := -1
	step := 0
	lastHash := hz.Hash(snap0)
	for {
		var enabled []int
		if running >= 0 && !s.threads[running].done {
			enabled = append(enabled, running)
		}
		for _, t := range s.threads {
			if !t.done && t.id != running {
				enabled = append(enabled, t.id)
			}
		}
		if len(enabled) == 0 {
			break
		}
		// state key: program counters + snapshot
		var pcs []string
		for _, t := range s.threads {
			pcs = append(pcs, fmt.Sprint(t.pc, t.done))
		}
		// the deep snapshot is taken at every point for short programs and at every 8th point otherwise
		// (and always at the end): a reader that modifies the struct does not undo it
		if step < 64 || step%8 == 0 {
			cur := enum.Snapshot(shared)
			if cur != snap0 && res.snapshot {
				res.snapshot = false
				res.badAt = step
			}
			lastHash = hz.Hash(cur)
		}
		res.states = append(res.states, strings.Join(pcs, "|")+"#"+fmt.Sprint(lastHash))
		choice := 0
		if step < len(prefix) {
			choice = prefix[step]
			if choice >= len(enabled) {
				res.diverged = true
				choice = 0
			}
		}
		res.choices = append(res.choices, choice)
		res.enabled = append(res.enabled, enabled)
		res.running = append(res.running, running)
		pick := s.threads[enabled[choice]]
		running = pick.id
		s.cur = pick
		pick.resume <- struct{}{}
		<-s.toSched // the picked thread runs until its next point or its end
		step++
	}
	if cur := enum.Snapshot(shared); cur != snap0 && res.snapshot {
		res.snapshot = false
		res.badAt = step
	}
	for _, t := range s.threads {
		res.results = append(res.results, t.result)
	}
	return res
}

func sequentialResults(md protoreflect.MessageDescriptor, variant int, ops [][]readOp) [][]string {
	var out [][]string
	for i := range ops {
		d := richValue(md, variant)
		shared := buildShared(d, variant)
		twin := enum.BuildGo(d)
		px := &pMsg{shared.ProtoReflect(), nopYield{}}
		var rs []string
		for _, op := range ops[i] {
			var r string
			var target proto.Message = px
			if strings.HasSuffix(op.name, "[fast path]") {
				target = shared
			}
			if p := hz.Catch(func() { r = op.f(target, twin) }); p != nil {
				r = fmt.Sprintf("PANIC: %v", p)
			}
			rs = append(rs, r)
		}
		out = append(out, rs)
	}
	return out
}

type nopYield struct{}

func (nopYield) Point(string) {}

type exploreStats struct {
	states, transitions, executions int64
	capped, expired                 bool
}

func opNames(ops [][]readOp) []string {
	var out []string
	for i, th := range ops {
		var ns []string
		for _, o := range th {
			ns = append(ns, o.name)
		}
		out = append(out, fmt.Sprintf("T%d:%s", i, strings.Join(ns, ",")))
	}
	return out
}

// explore enumerates schedules by DFS: an alternative at a choice point is taken only if the pair
// (state at that point, thread chosen) has not been scheduled before and its preemption cost fits the bound.
func explore(h *hz.H, md protoreflect.MessageDescriptor, variant int, ops [][]readOp, bound int, maxExec int64, st *exploreStats) {
	seq := sequentialResults(md, variant, ops)
	visited := map[string]bool{}
	seenState := map[string]bool{}
	tname := string(md.FullName())
	var rec func(prefix []int, preemptions int)
	rec = func(prefix []int, preemptions int) {
		if st.executions >= maxExec {
			st.capped = true
			return
		}
		if st.executions&31 == 0 && h.Expired() {
			st.capped, st.expired = true, true
			return
		}
		x := execute(md, variant, ops, prefix)
		st.executions++
		st.transitions += int64(len(x.choices))
		c := c11case{Part: "A", Type: tname, Variant: variant, Ops: opNames(ops), Schedule: x.choices}
		if x.diverged {
			h.InternalError("schedule replay diverged: " + fmt.Sprint(prefix))
			return
		}
		h.Eval(len(ops) >= 2, hz.Hash("C11A", tname, fmt.Sprint(variant), strings.Join(opNames(ops), "|"), fmt.Sprint(x.choices)))
		for _, s := range x.states {
			if !seenState[s] {
				seenState[s] = true
				st.states++
			}
		}
		if !x.snapshot {
			h.ViolateMin(fmt.Sprintf("C11/A/shared-struct-modified/%s/%s", tname, strings.Join(opNames(ops), "|")), fmt.Sprintf("read-only operations %v on a shared %s changed its Go struct (first seen at scheduling step %d of schedule %v)", opNames(ops), tname, x.badAt, x.choices), c, len(x.choices))
		}
		for i := range seq {
			for j := range seq[i] {
				got := "<missing>"
				if j < len(x.results[i]) {
					got = x.results[i][j]
				}
				if got != seq[i][j] {
					h.ViolateMin(fmt.Sprintf("C11/A/result-differs-from-sequential/%s/%s", tname, ops[i][j].name), fmt.Sprintf("under schedule %v of %v on a shared %s, thread %d's %s observed %s; sequentially it observes %s", x.choices, opNames(ops), tname, i, ops[i][j].name, clipS(got), clipS(seq[i][j])), c, len(x.choices))
				}
			}
		}
		for i := len(prefix); i < len(x.choices); i++ {
			for alt := 1; alt < len(x.enabled[i]); alt++ {
				cost := preemptions
				// switching away from a thread that could continue is a preemption
				if x.running[i] >= 0 && len(x.enabled[i]) > 0 && x.enabled[i][0] == x.running[i] {
					cost++
				}
				// account for preemptions already spent between len(prefix) and i: none (default choices never preempt)
				if cost > bound {
					continue
				}
				key := x.states[i] + ">" + fmt.Sprint(x.enabled[i][alt])
				if visited[key] {
					continue
				}
				visited[key] = true
				np := append(append([]int(nil), x.choices[:i]...), alt)
				rec(np, cost)
			}
			visited[x.states[i]+">"+fmt.Sprint(x.enabled[i][x.choices[i]])] = true
		}
	}
	rec(nil, 0)
}

func fastPathOps() []readOp {
	var out []readOp
	for _, o := range readOps[:3] { // Size, Marshal, Marshal(Deterministic)
		o := o
		out = append(out, readOp{o.name + " [fast path]", o.f})
	}
	return out
}

func clipS(s string) string {
	if len(s) > 160 {
		return s[:160] + "…"
	}
	return s
}

func runScheduler(h *hz.H) {
	types := targetTypes()
	if len(types) < 3 {
		h.InternalError("vacuous: fewer than 3 target message types")
		return
	}
	var st exploreStats
	var mu sync.Mutex
	boundsUsed := map[int]int{}
	type job struct {
		md      protoreflect.MessageDescriptor
		variant int
		ops     [][]readOp
		bound   int
		maxExec int64
	}
	var jobs []job
	alpha := readOps
	quickOps := []int{0, 2, 3, 4, 6, 8} // Size, Marshal(Det), Has+Get, Range, Equal, JSON
	for ti, md := range types {
		if h.Thorough() {
			// all ordered pairs, 1 op each, unbounded; plus 3 threads x 1 op and 2 threads x 2 ops with preemption bound 2 on the first types
			for i := range alpha {
				for j := range alpha {
					jobs = append(jobs, job{md, 2 * ((i + j) % 3), [][]readOp{{alpha[i]}, {alpha[j]}}, 1 << 30, 200000})
				}
			}
			if ti < 3 {
				for _, i := range quickOps {
					for _, j := range quickOps {
						jobs = append(jobs, job{md, 1, [][]readOp{{alpha[i], alpha[j]}, {alpha[j], alpha[i]}}, 2, 20000})
						jobs = append(jobs, job{md, 1, [][]readOp{{alpha[i]}, {alpha[j]}, {alpha[(i+j)%len(alpha)]}}, 2, 20000})
					}
				}
			}
		} else {
			for _, i := range quickOps {
				for _, j := range quickOps {
					if ti >= 3 && i != j && (i+j)%2 == 1 {
						continue
					}
					v := 2 * ((i + j) % 3)
					if (alpha[i].name == "protojson.Marshal" || alpha[j].name == "protojson.Marshal") && hasAnyField(md) {
						v = 5
					}
					jobs = append(jobs, job{md, v, [][]readOp{{alpha[i]}, {alpha[j]}}, 2, 6000})
				}
			}
		}
	}
	// fast-path harnesses: Size / Marshal / Marshal(Deterministic) on the REAL object, every ordered pair (thorough: also
	// against the proxied reads), all types, preemption unbounded (few points per program)
	fast := fastPathOps()
	for _, md := range types {
		for ai, a := range fast {
			for bi, b := range fast {
				jobs = append(jobs, job{md, 1 + 2*((ai+bi)%3), [][]readOp{{a}, {b}}, 1 << 30, 20000})
			}
			if h.Thorough() {
				for _, j := range quickOps {
					jobs = append(jobs, job{md, 0, [][]readOp{{a}, {alpha[j]}}, 3, 20000})
				}
				jobs = append(jobs, job{md, 1, [][]readOp{{a}, {a}, {a}}, 2, 20000})
			}
		}
	}
	h.Rep.Bounds["partA_harnesses"] = len(jobs)
	var mine []job
	for i, j := range jobs {
		if i%h.NShards == h.Shard {
			mine = append(mine, j)
		}
	}
	jobs = mine
	h.Workers = 1
	skipped := 0
	h.Par(int64(len(jobs)), "scheduler harnesses", func(i int64) {
		j := jobs[i]
		var s exploreStats
		if h.Expired() {
			mu.Lock()
			st.capped, st.expired = true, true
			skipped++
			mu.Unlock()
			return
		}
		bound := j.bound
		if !h.Thorough() {
			// long programs get preemption bound 1 in the quick tier so that the exploration completes; the bound used is reported
			if probe := execute(j.md, j.variant, j.ops, nil); len(probe.choices) > 110 {
				bound = 1
			}
		}
		explore(h, j.md, j.variant, j.ops, bound, j.maxExec, &s)
		mu.Lock()
		boundsUsed[bound]++
		mu.Unlock()
		mu.Lock()
		st.states += s.states
		st.transitions += s.transitions
		st.executions += s.executions
		if s.capped {
			st.capped = true
		}
		if s.expired {
			st.expired = true
		}
		if h.WantSample() && s.executions > 3 {
			h.Sample(map[string]interface{}{"part": "A", "type": string(j.md.FullName()), "threads": opNames(j.ops), "preemption_bound": j.bound, "schedules_explored": s.executions, "scheduler_states": s.states})
		}
		mu.Unlock()
	})
	if st.expired {
		h.Cap(fmt.Sprintf("Part A: time budget reached (%d harnesses of this shard not started, others cut short)", skipped))
	}
	if st.capped {
		h.Cap("Part A: per-harness execution cap reached for at least one harness (preemption-bounded exploration completed below the cap)")
	}
	h.Rep.States = st.states
	h.Rep.Transitions = st.transitions
	h.Rep.Traces = st.executions
	for b, n := range boundsUsed {
		h.Counter(fmt.Sprintf("partA_harnesses_explored_with_preemption_bound_%d", b), int64(n))
	}
	if !st.expired && st.executions < int64(len(jobs))*2 {
		h.InternalError("vacuous: the scheduler explored fewer than two schedules per harness on average")
	}
}

// runShards runs Part A in child processes (one harness at a time per process) and merges their reports.
func runShards(h *hz.H) {
	self, _ := os.Executable()
	n := h.Workers
	if n > 16 {
		n = 16
	}
	dir := os.Getenv("VERIF_SCRATCH_DIR")
	var wg sync.WaitGroup
	reps := make([]*hz.Report, n)
	outs := make([]string, n)
	for i := 0; i < n; i++ {
		i := i
		wg.Add(1)
		go func() {
			defer wg.Done()
			rp := filepath.Join(dir, fmt.Sprintf("schedA-%d-%d.json", os.Getpid(), i))
			args := []string{"-prop", "C11", "-tier", h.Tier, "-report", rp, "-shard", fmt.Sprint(i), "-nshards", fmt.Sprint(n), "-workers", "1"}
			if !h.Deadline.IsZero() {
				args = append(args, "-budget", fmt.Sprintf("%ds", int(timeLeft(h)*0.6)))
			}
			cmd := exec.Command(self, args...)
			// map iteration inside the shard is pinned (patched runtime): schedules replay deterministically
			cmd.Env = append(os.Environ(), "GOMAXPROCS=2", "VERIF_MAPITER=1,0,-1,0,-1,0,1,0,0")
			out, _ := cmd.CombinedOutput()
			outs[i] = string(out)
			if b, err := os.ReadFile(rp); err == nil {
				var r hz.Report
				if json.Unmarshal(b, &r) == nil {
					reps[i] = &r
				}
			}
		}()
	}
	wg.Wait()
	for i, r := range reps {
		if r == nil {
			h.InternalError("scheduler shard wrote no report: " + outs[i][max(0, len(outs[i])-500):])
			return
		}
		h.MergeChild(r)
		for k, v := range r.Bounds {
			h.Rep.Bounds[k] = v
		}
	}
}

func timeLeft(h *hz.H) float64 {
	d := time.Until(h.Deadline).Seconds()
	if d < 30 {
		d = 30
	}
	return d
}

func replaySchedule(h *hz.H, c c11case) {
	var md protoreflect.MessageDescriptor
	for _, t := range enum.PulsarTypes() {
		if string(t.FullName()) == c.Type {
			md = t
		}
	}
	if md == nil {
		h.InternalError("replay: type not present")
		return
	}
	byName := map[string]readOp{}
	for _, o := range append(append([]readOp(nil), readOps...), fastPathOps()...) {
		byName[o.name] = o
	}
	var ops [][]readOp
	for _, th := range c.Ops {
		th = th[strings.Index(th, ":")+1:]
		var l []readOp
		for _, n := range splitOps(th, byName) {
			l = append(l, byName[n])
		}
		ops = append(ops, l)
	}
	if os.Getenv("VERIF_MAPITER") == "" {
		// pin map iteration exactly as in the exploring shard, by re-executing this replay in a child
		self, _ := os.Executable()
		rp := filepath.Join(os.Getenv("VERIF_SCRATCH_DIR"), fmt.Sprintf("schedreplay-%d.json", os.Getpid()))
		cmd := exec.Command(self, "-prop", "C11", "-tier", h.Tier, "-report", rp, "-replay", h.Replay)
		cmd.Env = append(os.Environ(), "VERIF_MAPITER=1,0,-1,0,-1,0,1,0,0")
		cmd.Run()
		if b, err := os.ReadFile(rp); err == nil {
			var r hz.Report
			if json.Unmarshal(b, &r) == nil {
				h.MergeChild(&r)
				return
			}
		}
		h.InternalError("pinned replay child wrote no report")
		return
	}
	seq := sequentialResults(md, c.Variant, ops)
	x1 := execute(md, c.Variant, ops, c.Schedule)
	x2 := execute(md, c.Variant, ops, c.Schedule)
	if fmt.Sprint(x1.results) != fmt.Sprint(x2.results) || fmt.Sprint(x1.states) != fmt.Sprint(x2.states) {
		h.InternalError("replaying the same schedule twice gave different observations")
		return
	}
	if !x1.snapshot {
		h.Violate("C11/A/shared-struct-modified/"+c.Type, "replayed schedule: the shared struct changed", c)
	}
	if fmt.Sprint(x1.results) != fmt.Sprint(seq) {
		h.Violate("C11/A/result-differs-from-sequential/"+c.Type, fmt.Sprintf("replayed schedule %v: results %v, sequential %v", c.Schedule, clipS(fmt.Sprint(x1.results)), clipS(fmt.Sprint(seq))), c)
	}
}

func splitOps(s string, known map[string]readOp) []string {
	// operation names contain commas and parentheses; match greedily against the known names
	var out []string
	for len(s) > 0 {
		best := ""
		for n := range known {
			if strings.HasPrefix(s, n) && len(n) > len(best) {
				best = n
			}
		}
		if best == "" {
			break
		}
		out = append(out, best)
		s = strings.TrimPrefix(s[len(best):], ",")
	}
	return out
}

// ---------------------------------------------------------------------------------------------
// Part B: free-running race pass (this code runs in the -race twin binary)

// crowd: many readers of one DEEP message at once (400 goroutines x a chain nested 400 levels, i.e. far more levels in
// flight together than any single reader ever has): anything the code under test accounts per process instead of per
// call shows as a result that differs from the sequential one.
func crowd(h *hz.H) {
	for _, name := range []string{"mx.Chain", "mx.ChainL", "mx.Leaf"} {
		var md protoreflect.MessageDescriptor
		for _, m := range enum.PulsarTypes() {
			if string(m.FullName()) == name {
				md = m
			}
		}
		if md == nil {
			continue
		}
		var self protoreflect.FieldDescriptor
		fs := md.Fields()
		for i := 0; i < fs.Len(); i++ {
			if f := fs.Get(i); f.Message() == md && !f.IsList() && !f.IsMap() {
				self = f
				break
			}
		}
		if self == nil {
			continue
		}
		d := enum.NewDyn(md)
		cur := protoreflect.Message(d)
		for i := 0; i < 400; i++ {
			cur = cur.Mutable(self).Message()
		}
		shared := enum.BuildGo(d)
		ops := []struct {
			name string
			f    func() string
		}{
			{"Marshal", func() string { b, err := proto.Marshal(shared); return fmt.Sprintf("%d bytes err=%v", len(b), err) }},
			{"Marshal(Deterministic)", func() string {
				b, err := proto.MarshalOptions{Deterministic: true}.Marshal(shared)
				return fmt.Sprintf("%d bytes err=%v", len(b), err)
			}},
			{"Size", func() string { return fmt.Sprint(proto.Size(shared)) }},
			{"Clone", func() string { return fmt.Sprint(proto.Size(proto.Clone(shared))) }},
		}
		for _, op := range ops {
			want := op.f()
			const readers = 400
			got := make([]string, readers)
			var wg sync.WaitGroup
			start := make(chan struct{})
			for k := 0; k < readers; k++ {
				k := k
				wg.Add(1)
				go func() {
					defer wg.Done()
					<-start
					if p := hz.Catch(func() { got[k] = op.f() }); p != nil {
						got[k] = fmt.Sprintf("PANIC: %v", p)
					}
				}()
			}
			close(start)
			wg.Wait()
			h.Eval(true, hz.Hash("C11crowd", name, op.name))
			bad := 0
			ex := ""
			for _, g := range got {
				if g != want {
					bad++
					ex = g
				}
			}
			if bad > 0 {
				h.Violate(fmt.Sprintf("C11/B/crowd-result-differs-from-sequential/%s/%s", name, op.name), fmt.Sprintf("%d of %d concurrent %s calls on one %s nested 400 levels deep observed %s; sequentially %s", bad, readers, op.name, name, clipS(ex), want), c11case{Part: "B", Type: name, Ops: []string{"crowd:" + op.name}})
			}
		}
	}
	h.Rep.Bounds["partB_crowd"] = "400 readers x chain nested 400 levels x {Marshal, Marshal(Deterministic), Size, Clone}"
}

// runCold: the process's very first fast-path calls on a type (and on the nested types reached through it) are
// made by concurrent goroutines. Whatever the generated code initialises lazily per type is initialised here under
// the race detector. One fresh process per type; the value is built through struct reflection only.
func runCold(h *hz.H, name string) {
	all := append(append([]readOp(nil), readOps...), directOps...)
	for _, md := range targetTypes() {
		if string(md.FullName()) != name {
			continue
		}
		d := richValue(md, 0)
		shared := enum.BuildGo(d)
		twins := make([]proto.Message, len(all))
		for k := range all {
			twins[k] = enum.BuildGo(d)
		}
		var wg sync.WaitGroup
		start := make(chan struct{})
		for k := range all {
			k := k
			wg.Add(1)
			go func() {
				defer wg.Done()
				<-start
				hz.Catch(func() { all[k].f(shared, twins[k]) })
			}()
		}
		close(start)
		wg.Wait()
		h.Eval(true, hz.Hash("C11cold", name))
		h.Eval(true, hz.Hash("C11cold2", name))
	}
}

func runRacePass(h *hz.H) {
	if name := os.Getenv("VERIF_COLD_TYPE"); name != "" {
		runCold(h, name)
		return
	}
	types := targetTypes()
	all := append(append([]readOp(nil), readOps...), directOps...)
	reps := 6
	var tuples [][]int
	for i := range all {
		for j := range all {
			tuples = append(tuples, []int{i, j})
		}
	}
	if h.Thorough() {
		reps = 20
		for i := range all {
			for j := range all {
				for k := range all {
					if (i+j+k)%3 == 0 || i == j || j == k {
						tuples = append(tuples, []int{i, j, k})
					}
				}
			}
		}
	}
	h.Rep.Bounds["partB_operation_tuples"] = len(tuples)
	h.Rep.Bounds["partB_repetitions_per_tuple"] = reps
	onlyType := os.Getenv("VERIF_RACE_ONLY_TYPE") // replay of a result violation: that type's tuples only
	for _, md := range types {
		if onlyType != "" && string(md.FullName()) != onlyType {
			continue
		}
		for variant := 0; variant < 7; variant++ {
			if variant >= 5 && !hasAnyField(md) {
				continue
			}
			d := richValue(md, variant)
			ref := buildShared(d, variant)
			twinSeq := enum.BuildGo(d)
			for _, tp := range tuples {
				// sequential expectations from independent objects
				want := make([]string, len(tp))
				for k, oi := range tp {
					want[k] = all[oi].f(ref, twinSeq)
				}
				for r := 0; r < reps; r++ {
					shared := buildShared(d, variant) // fresh, unprimed object: nothing has sized or marshalled it yet
					var wg sync.WaitGroup
					start := make(chan struct{})
					got := make([]string, len(tp))
					for k, oi := range tp {
						k, oi := k, oi
						wg.Add(1)
						go func() {
							defer wg.Done()
							twin := enum.BuildGo(d)
							<-start
							if p := hz.Catch(func() { got[k] = all[oi].f(shared, twin) }); p != nil {
								got[k] = fmt.Sprintf("PANIC: %v", p)
							}
						}()
					}
					close(start)
					wg.Wait()
					var names []string
					for _, oi := range tp {
						names = append(names, all[oi].name)
					}
					h.Eval(true, hz.Hash("C11B", string(md.FullName()), fmt.Sprint(variant), strings.Join(names, "|")))
					for k := range tp {
						if got[k] != want[k] {
							h.ViolateMin(fmt.Sprintf("C11/B/result-differs-from-sequential/%s/%s", md.FullName(), all[tp[k]].name), fmt.Sprintf("concurrent %v on a shared %s: %s observed %s, sequentially %s", names, md.FullName(), all[tp[k]].name, clipS(got[k]), clipS(want[k])), c11case{Part: "B", Type: string(md.FullName()), Variant: variant, Ops: names}, len(tp))
						}
					}
				}
			}
		}
	}
	if onlyType == "" {
		crowd(h)
	}
	h.Sample(map[string]interface{}{"part": "B", "types": len(types), "operations": len(all), "tuples": len(tuples), "repetitions": reps})
}

var raceFrame = regexp.MustCompile(`^\s+(\S+)\(\)`)

// mergeRacePass starts the -race twin, reads its report and the race detector's log.
func mergeRacePass(h *hz.H, only *c11case) {
	bin := os.Getenv("VERIF_SCHED_RACE_BIN")
	if bin == "" {
		h.InternalError("VERIF_SCHED_RACE_BIN not set")
		return
	}
	dir := os.Getenv("VERIF_SCRATCH_DIR")
	logBase := filepath.Join(dir, fmt.Sprintf("race-%d", os.Getpid()))
	rep := filepath.Join(dir, fmt.Sprintf("race-report-%d.json", os.Getpid()))
	cmd := exec.Command(bin, "-prop", "C11", "-tier", h.Tier, "-report", rep)
	cmd.Env = append(os.Environ(), "GORACE=halt_on_error=0 history_size=3 log_path="+logBase)
	onlyType := ""
	if only != nil && only.Type != "" && only.Race == "" {
		onlyType = only.Type
		cmd.Env = append(cmd.Env, "VERIF_RACE_ONLY_TYPE="+onlyType)
	}
	out, err := cmd.CombinedOutput()
	if _, ok := err.(*exec.ExitError); err != nil && !ok {
		h.InternalError("cannot run the race twin: " + err.Error())
		return
	}
	b, rerr := os.ReadFile(rep)
	if rerr != nil {
		h.InternalError("race twin wrote no report: " + string(out[max(0, len(out)-600):]))
		return
	}
	var r hz.Report
	json.Unmarshal(b, &r)
	if r.Internal != "" {
		h.InternalError("race twin: " + r.Internal)
		return
	}
	h.EvalN(r.Evaluations)
	h.DistinctN(r.Distinct)
	for k, v := range r.Bounds {
		h.Rep.Bounds[k] = v
	}
	for _, s := range r.Samples {
		h.Sample(s)
	}
	for _, v := range r.Violations {
		h.Violate(v.Key, v.What, v.Case)
	}
	// cold starts: one fresh process per type whose first fast-path calls are concurrent
	cold := 0
	for _, md := range targetTypes() {
		if onlyType != "" && string(md.FullName()) != onlyType {
			continue
		}
		crep := filepath.Join(dir, fmt.Sprintf("race-cold-%d-%d.json", os.Getpid(), cold))
		c := exec.Command(bin, "-prop", "C11", "-tier", h.Tier, "-report", crep)
		c.Env = append(os.Environ(), "GORACE=halt_on_error=0 history_size=3 log_path="+logBase, "VERIF_COLD_TYPE="+string(md.FullName()))
		cout, _ := c.CombinedOutput()
		if _, err := os.Stat(crep); err != nil {
			h.InternalError("cold-start race process wrote no report: " + string(cout[max(0, len(cout)-400):]))
			return
		}
		cold++
		h.EvalN(1)
	}
	h.Rep.Bounds["partB_cold_start_processes"] = cold
	// race reports
	logs, _ := filepath.Glob(logBase + "*")
	nReports := 0
	for _, lf := range logs {
		f, err := os.Open(lf)
		if err != nil {
			continue
		}
		sc := bufio.NewScanner(f)
		sc.Buffer(make([]byte, 1<<20), 1<<20)
		var block []string
		flush := func() {
			if len(block) == 0 {
				return
			}
			nReports++
			var fns []string
			for _, l := range block {
				if m := raceFrame.FindStringSubmatch(l); m != nil {
					fn := m[1]
					if strings.HasPrefix(fn, "runtime.") && !strings.Contains(fn, "cosmos-proto") || strings.Contains(fn, "zzverif/sched") || strings.Contains(fn, "zzverif/enum") {
						continue
					}
					if i := strings.LastIndex(fn, "/"); i >= 0 {
						fn = fn[i+1:]
					}
					fns = append(fns, fn)
				}
			}
			sites := map[string]bool{}
			var top []string
			for _, fn := range fns {
				if !sites[fn] && len(top) < 4 {
					sites[fn] = true
					top = append(top, fn)
				}
			}
			sort.Strings(top)
			txt := strings.Join(block, "\n")
			if len(txt) > 1800 {
				txt = txt[:1800]
			}
			h.Violate("C11/B/data-race/"+strings.Join(top, "+"), "the Go race detector reports a data race between concurrent read-only operations on a shared message:\n"+txt, c11case{Part: "B", Race: strings.Join(top, " / ")})
			block = nil
		}
		in := false
		for sc.Scan() {
			l := sc.Text()
			if strings.Contains(l, "WARNING: DATA RACE") {
				flush()
				in = true
			}
			if in {
				if strings.HasPrefix(l, "==================") && len(block) > 0 {
					flush()
					in = false
					continue
				}
				block = append(block, l)
			}
		}
		flush()
		f.Close()
	}
	h.AddExtra("race_detector_reports", nReports)
}

func max(a, b int) int {
	if a > b {
		return a
	}
	return b
}

var _ = proto.Marshal
