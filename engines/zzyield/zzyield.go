// Package zzyield is the scheduling hook called from *instrumented copies* of generated code (see
// lib/builders.py: instrument_generated). The instrumentation exists only in the scheduler binary of
// C11 part A; nothing under /repo is modified.
package zzyield

import "sync/atomic"

var hook atomic.Pointer[func(string)]

// Set installs (or with nil removes) the hook.
func Set(f func(string)) {
	if f == nil {
		hook.Store(nil)
		return
	}
	hook.Store(&f)
}

// Point is called at the entry of every generated size/marshal/unmarshal closure, before every
// nested-message call and before every return of those closures.
func Point(what string) {
	if h := hook.Load(); h != nil {
		(*h)(what)
	}
}
