// Engine "rapidspace" (C18): rapidproto's generators are deterministic functions of the word
// stream rapid hands them. The engine owns that stream (rapid.MakeFuzz) and enumerates every stream
// that differs from a base stream in at most k positions, checking each generated message.
// It is a test binary because rapid needs a *testing.T; the whole engine runs inside TestC18.
package rapidspace

import (
	"encoding/binary"
	"fmt"
	"reflect"
	"regexp"
	"runtime"
	"strings"
	"sync"
	"sync/atomic"
	"testing"
	"unicode/utf8"
	"unsafe"

	"github.com/cosmos/cosmos-proto/internal/testprotos/test3"
	"github.com/cosmos/cosmos-proto/internal/zzverif/enum"
	"github.com/cosmos/cosmos-proto/internal/zzverif/hz"
	"github.com/cosmos/cosmos-proto/rapidproto"
	"github.com/cosmos/cosmos-proto/testpb"
	"google.golang.org/protobuf/proto"
	"google.golang.org/protobuf/reflect/protoreflect"
	"google.golang.org/protobuf/reflect/protoregistry"
	"google.golang.org/protobuf/types/dynamicpb"
	"google.golang.org/protobuf/types/known/anypb"
	"google.golang.org/protobuf/types/known/durationpb"
	"google.golang.org/protobuf/types/known/fieldmaskpb"
	"google.golang.org/protobuf/types/known/timestamppb"
	"pgregory.net/rapid"
)

type c18case struct {
	Type    string   `json:"type"`
	Options string   `json:"options"`
	Base    string   `json:"base_stream"`
	Pos     []int    `json:"deviating_positions"`
	Words   []uint64 `json:"deviating_words"`
	Horizon int      `json:"horizon_words"`
}

var bases = map[string]uint64{"all-zero": 0, "all-ones": ^uint64(0), "all-1": 1, "all-2^52": 1 << 52}
var baseOrder = []string{"all-zero", "all-1", "all-2^52", "all-ones"}
var devWords = []uint64{0, 1, 2, 3, 7, 0x7f, 0xff, 1 << 31, 1<<32 - 1, 1 << 52, 1<<53 - 1, 1 << 63, ^uint64(0)}

const depthLimit = 10 // rapidproto's nesting limit

type optSet struct {
	name string
	opts rapidproto.GeneratorOptions
	// expectations
	noEmptyLists, disallowNil, pinned, anyTypes, hints bool
}

func optionSets() []optSet {
	pin := func(t *rapid.T, fd protoreflect.FieldDescriptor, name string) (protoreflect.Value, bool) {
		if fd.Kind() == protoreflect.StringKind {
			return protoreflect.ValueOfString("PINNED"), true
		}
		return protoreflect.Value{}, false
	}
	leafT, _ := protoregistry.GlobalTypes.FindMessageByName("mx.Leaf")
	withAny := rapidproto.GeneratorOptions{Resolver: protoregistry.GlobalTypes}.WithAnyTypes(&testpb.B{}, leafT.New().Interface())
	return []optSet{
		{name: "zero", opts: rapidproto.GeneratorOptions{}},
		{name: "NoEmptyLists", opts: rapidproto.GeneratorOptions{NoEmptyLists: true}, noEmptyLists: true},
		{name: "DisallowNilMessages", opts: rapidproto.GeneratorOptions{}.WithDisallowNil(), disallowNil: true},
		{name: "NoEmptyLists+DisallowNilMessages", opts: rapidproto.GeneratorOptions{NoEmptyLists: true, DisallowNilMessages: true}, noEmptyLists: true, disallowNil: true},
		{name: "AnyTypes(B,Leaf)", opts: withAny, anyTypes: true},
		// no recursive payload type and every string pinned: several NON-EMPTY Any payloads fit in the horizon on the small constant streams
		{name: "AnyTypes(B)+FieldMaps(pin strings)", opts: rapidproto.GeneratorOptions{Resolver: protoregistry.GlobalTypes, FieldMaps: []rapidproto.FieldMapper{pin}}.WithAnyTypes(&testpb.B{}).WithInterfaceHint("verif.Iface", &testpb.B{}), anyTypes: true, pinned: true, hints: true},
		{name: "AnyTypes+InterfaceHint", opts: withAny.WithInterfaceHint("verif.Iface", &testpb.B{}), anyTypes: true, hints: true},
		{name: "FieldMaps(pin strings)", opts: rapidproto.GeneratorOptions{FieldMaps: []rapidproto.FieldMapper{pin}}, pinned: true},
	}
}

var maxStringBytes, longMultibyteStrings atomic.Int64

var pathRe = regexp.MustCompile(`^[a-z]+([.][a-z]+){0,2}$`)

// validate walks the generated message (through the reference view) and returns the first problem.
func validate(m protoreflect.Message, os optSet, depth int, insideAny bool) string {
	md := m.Descriptor()
	if u := m.GetUnknown(); len(u) > 0 {
		// the generator never draws unknown fields: an Any payload that leaves some was encoded from another type
		return fmt.Sprintf("%s carries %d bytes of unknown fields (payload of another type under this type URL?)", md.FullName(), len(u))
	}
	switch md.FullName() {
	case "google.protobuf.Timestamp":
		ts := &timestamppb.Timestamp{Seconds: m.Get(md.Fields().ByName("seconds")).Int(), Nanos: int32(m.Get(md.Fields().ByName("nanos")).Int())}
		if err := ts.CheckValid(); err != nil {
			return fmt.Sprintf("invalid Timestamp {%d,%d}: %v", ts.Seconds, ts.Nanos, err)
		}
		return ""
	case "google.protobuf.Duration":
		d := &durationpb.Duration{Seconds: m.Get(md.Fields().ByName("seconds")).Int(), Nanos: int32(m.Get(md.Fields().ByName("nanos")).Int())}
		if err := d.CheckValid(); err != nil {
			return fmt.Sprintf("invalid Duration {%d,%d}: %v", d.Seconds, d.Nanos, err)
		}
		return ""
	case "google.protobuf.FieldMask":
		l := m.Get(md.Fields().ByName("paths")).List()
		if l.Len() < 1 || l.Len() > 5 {
			return fmt.Sprintf("FieldMask carries %d paths; between 1 and 5 are drawn for it", l.Len())
		}
		for i := 0; i < l.Len(); i++ {
			if !pathRe.MatchString(l.Get(i).String()) {
				return fmt.Sprintf("FieldMask path %q is not of the drawn form", l.Get(i).String())
			}
		}
		return ""
	case "google.protobuf.Any":
		url := m.Get(md.Fields().ByName("type_url")).String()
		val := m.Get(md.Fields().ByName("value")).Bytes()
		if !os.anyTypes {
			return "" // unsatisfiable option set for Any fields: not judged
		}
		mt, err := protoregistry.GlobalTypes.FindMessageByURL(url)
		if err != nil {
			return fmt.Sprintf("Any type URL %q does not resolve: %v", url, err)
		}
		inner := dynamicpb.NewMessage(mt.Descriptor())
		if err := proto.Unmarshal(val, inner); err != nil {
			return fmt.Sprintf("Any value does not decode as %s: %v", url, err)
		}
		return validate(inner, os, depth+1, true)
	}
	problem := ""
	fs := md.Fields()
	for i := 0; i < fs.Len() && problem == ""; i++ {
		fd := fs.Get(i)
		isMsg := fd.Kind() == protoreflect.MessageKind
		inOneof := fd.ContainingOneof() != nil && !fd.ContainingOneof().IsSynthetic()
		checkScalar := func(sfd protoreflect.FieldDescriptor, v protoreflect.Value) string {
			switch sfd.Kind() {
			case protoreflect.StringKind:
				if n := int64(len(v.String())); n > maxStringBytes.Load() {
					maxStringBytes.Store(n)
				}
				if len(v.String()) > 64 && utf8.RuneCountInString(v.String()) < len(v.String()) {
					longMultibyteStrings.Add(1)
				}
				if !utf8.ValidString(v.String()) {
					return fmt.Sprintf("field %s holds an invalid UTF-8 string %q", sfd.FullName(), v.String())
				}
				if os.pinned && v.String() != "PINNED" {
					return fmt.Sprintf("field %s holds %q although the field mapper pins every string to PINNED", sfd.FullName(), v.String())
				}
			case protoreflect.EnumKind:
				if sfd.Enum().Values().ByNumber(v.Enum()) == nil {
					return fmt.Sprintf("enum field %s holds %d, which %s does not declare", sfd.FullName(), v.Enum(), sfd.Enum().FullName())
				}
			}
			return ""
		}
		switch {
		case fd.IsList():
			l := m.Get(fd).List()
			for j := 0; j < l.Len() && problem == ""; j++ {
				if isMsg {
					problem = validate(l.Get(j).Message(), os, depth+1, insideAny)
				} else {
					problem = checkScalar(fd, l.Get(j))
				}
			}
		case fd.IsMap():
			m.Get(fd).Map().Range(func(k protoreflect.MapKey, v protoreflect.Value) bool {
				problem = checkScalar(fd.MapKey(), k.Value())
				if problem == "" {
					if fd.MapValue().Kind() == protoreflect.MessageKind {
						problem = validate(v.Message(), os, depth+1, insideAny)
					} else {
						problem = checkScalar(fd.MapValue(), v)
					}
				}
				return problem == ""
			})
		case isMsg:
			if !m.Has(fd) {
				isAny := fd.Message().FullName() == "google.protobuf.Any"
				if os.disallowNil && !inOneof && depth < depthLimit && !(isAny && !os.anyTypes) {
					return fmt.Sprintf("DisallowNilMessages: message field %s is nil at nesting depth %d", fd.FullName(), depth)
				}
				continue
			}
			problem = validate(m.Get(fd).Message(), os, depth+1, insideAny)
		default:
			if m.Has(fd) || inOneof && m.Has(fd) {
				problem = checkScalar(fd, m.Get(fd))
			}
		}
	}
	return problem
}

// emptyListDepth returns the smallest nesting depth at which the Go struct holds a present-but-empty
// (non-nil, zero-length) list, or -1. A list that was never generated is nil and is not "empty".
func emptyListDepth(v reflect.Value, depth int) (int, string) {
	switch v.Kind() {
	case reflect.Ptr, reflect.Interface:
		if v.IsNil() {
			return -1, ""
		}
		return emptyListDepth(v.Elem(), depth)
	case reflect.Struct:
		best, where := -1, ""
		t := v.Type()
		for i := 0; i < t.NumField(); i++ {
			if t.Field(i).PkgPath != "" {
				continue
			}
			f := v.Field(i)
			switch f.Kind() {
			case reflect.Slice:
				if f.Type().Elem().Kind() == reflect.Uint8 {
					continue
				}
				if !f.IsNil() && f.Len() == 0 && (best < 0 || depth < best) {
					best, where = depth, t.Name()+"."+t.Field(i).Name
				}
				for j := 0; j < f.Len(); j++ {
					if d, w := emptyListDepth(f.Index(j), depth+1); d >= 0 && (best < 0 || d < best) {
						best, where = d, w
					}
				}
			case reflect.Map:
				it := f.MapRange()
				for it.Next() {
					if d, w := emptyListDepth(it.Value(), depth+1); d >= 0 && (best < 0 || d < best) {
						best, where = d, w
					}
				}
			case reflect.Ptr, reflect.Interface:
				nd := depth + 1
				if f.Kind() == reflect.Interface {
					nd = depth // oneof wrapper: the wrapper struct itself is not a nesting level
				}
				if d, w := emptyListDepth(f, nd); d >= 0 && (best < 0 || d < best) {
					best, where = d, w
				}
			}
		}
		return best, where
	}
	return -1, ""
}

func maxDepth(m protoreflect.Message, d int) int {
	best := d
	m.Range(func(fd protoreflect.FieldDescriptor, v protoreflect.Value) bool {
		if fd.Kind() != protoreflect.MessageKind {
			return true
		}
		switch {
		case fd.IsList():
			for i := 0; i < v.List().Len(); i++ {
				if x := maxDepth(v.List().Get(i).Message(), d+1); x > best {
					best = x
				}
			}
		case fd.IsMap():
			if fd.MapValue().Kind() == protoreflect.MessageKind {
				v.Map().Range(func(_ protoreflect.MapKey, mv protoreflect.Value) bool {
					if x := maxDepth(mv.Message(), d+1); x > best {
						best = x
					}
					return true
				})
			}
		default:
			if x := maxDepth(v.Message(), d+1); x > best {
				best = x
			}
		}
		return true
	})
	return best
}

type target struct {
	name string
	run  func(os optSet) func(t *rapid.T) proto.Message
}

func gen[T proto.Message](x T) func(os optSet) func(t *rapid.T) proto.Message {
	return func(os optSet) func(t *rapid.T) proto.Message {
		g := rapidproto.MessageGenerator(x, os.opts)
		return func(t *rapid.T) proto.Message { return g.Draw(t, "msg") }
	}
}

func targets() []target {
	mk := func(name string) proto.Message {
		mt, err := protoregistry.GlobalTypes.FindMessageByName(protoreflect.FullName(name))
		if err != nil {
			panic(err)
		}
		return mt.New().Interface()
	}
	return []target{
		{"A", gen(&testpb.A{})},
		{"mx.Chain", gen(mk("mx.Chain"))},
		{"mx.Sing", gen(mk("mx.Sing"))},
		{"mx.Leaf", gen(mk("mx.Leaf"))},
		{"goproto.proto.test3.TestAllTypes", gen(&test3.TestAllTypes{})},
		{"google.protobuf.Timestamp", gen(&timestamppb.Timestamp{})},
		{"google.protobuf.Duration", gen(&durationpb.Duration{})},
		{"google.protobuf.FieldMask", gen(&fieldmaskpb.FieldMask{})},
		{"mx.Wide", gen(mk("mx.Wide"))},
		{"mx.Wkt", gen(mk("mx.Wkt"))},
		{"google.protobuf.Any", gen(&anypb.Any{})},
		{"mx.One", gen(mk("mx.One"))},
		{"mx.ChainL", gen(mk("mx.ChainL"))},
		{"mx.Anys", gen(mk("mx.Anys"))},
		{"mx.Late", gen(mk("mx.Late"))},   // a ten-element message list whose elements hold a chain of singular messages
		{"mx.Enums", gen(mk("mx.Enums"))}, // aliases, out-of-order numbers, same-named enums with different number sets
		{"B", gen(&testpb.B{})},           // one string field: long strings are reached through periodic streams, see below
	}
}

type outcome int

const (
	completed outcome = iota
	beyondHorizon
	generatorFailed
)

// generate feeds one explicit word stream to the generator inside a subtest.
func generate(t *testing.T, tg target, os optSet, stream []byte) (res outcome, failure string, msg proto.Message) {
	res = generatorFailed
	draw := tg.run(os)
	t.Run("s", func(st *testing.T) {
		defer func() {
			// st.SkipNow / st.Fatalf unwind with runtime.Goexit: classify afterwards
			if st.Skipped() {
				res = beyondHorizon
			}
		}()
		rapid.MakeFuzz(func(rt *rapid.T) {
			defer func() {
				if r := recover(); r != nil {
					tn := fmt.Sprintf("%T", r)
					if !strings.Contains(tn, "invalidData") {
						failure = fmt.Sprintf("generator panicked/failed: (%s) %v", tn, r)
					}
					panic(r)
				}
			}()
			msg = draw(rt)
		})(st, stream)
		res = completed
	})
	return
}

// byteSlices collects every non-empty bytes datum reachable in m (Any payloads included) with its memory range.
func byteSlices(m protoreflect.Message, path string, out *[]memRange) {
	m.Range(func(fd protoreflect.FieldDescriptor, v protoreflect.Value) bool {
		p := path + "." + string(fd.Name())
		one := func(k protoreflect.Kind, v protoreflect.Value, p string) {
			switch k {
			case protoreflect.BytesKind:
				if b := v.Bytes(); len(b) > 0 {
					a := uintptr(unsafe.Pointer(&b[0]))
					*out = append(*out, memRange{p, a, a + uintptr(len(b))})
				}
			case protoreflect.MessageKind, protoreflect.GroupKind:
				byteSlices(v.Message(), p, out)
			}
		}
		switch {
		case fd.IsList():
			for i := 0; i < v.List().Len(); i++ {
				one(fd.Kind(), v.List().Get(i), fmt.Sprintf("%s[%d]", p, i))
			}
		case fd.IsMap():
			v.Map().Range(func(k protoreflect.MapKey, mv protoreflect.Value) bool {
				one(fd.MapValue().Kind(), mv, fmt.Sprintf("%s[%v]", p, k.Interface()))
				return true
			})
		default:
			one(fd.Kind(), v, p)
		}
		return true
	})
}

type memRange struct {
	path   string
	lo, hi uintptr
}

// runOne runs the generator on one word stream and validates what it yields.
func runOne(t *testing.T, h *hz.H, tg target, os optSet, c c18case, stream []byte) outcome {
	res, failure, msg := generate(t, tg, os, stream)
	key := func(o string) string { return fmt.Sprintf("C18/%s/%s/options=%s", o, tg.name, os.name) }
	switch res {
	case beyondHorizon:
		return res
	case generatorFailed:
		if failure == "" {
			failure = "rapid reported a failure"
		}
		h.ViolateMin(key("generator-failed"), fmt.Sprintf("%s with options %s on stream %s%v: %s", tg.name, os.name, c.Base, devDesc(c), failure), c, len(c.Pos))
		return res
	}
	// the generated message must be acceptable to the reference marshaller and round-trip
	var enc []byte
	var err error
	if p := hz.Catch(func() { enc, err = proto.Marshal(msg) }); p != nil || err != nil {
		h.ViolateMin(key("marshal"), fmt.Sprintf("generated %s does not marshal: panic=%v err=%v", tg.name, p, err), c, len(c.Pos))
		return res
	}
	d := dynamicpb.NewMessage(msg.ProtoReflect().Descriptor())
	if err := proto.Unmarshal(enc, d); err != nil {
		h.ViolateMin(key("reference-rejects"), fmt.Sprintf("the reference decoder rejects the generated %s (stream %s%v): %v", tg.name, c.Base, devDesc(c), err), c, len(c.Pos))
		return res
	}
	if _, err := proto.Marshal(d); err != nil {
		h.ViolateMin(key("reference-marshal"), fmt.Sprintf("the reference marshaller rejects the generated %s: %v", tg.name, err), c, len(c.Pos))
		return res
	}
	if enum.InfoOf(msg) != nil && enum.Canon(enum.Slow(msg), true) != enum.Canon(d, false) {
		h.ViolateMin(key("round-trip"), fmt.Sprintf("generated %s does not round-trip through the wire", tg.name), c, len(c.Pos))
		return res
	}
	if dep := maxDepth(d, 0); dep > depthLimit+1 {
		h.ViolateMin(key("depth"), fmt.Sprintf("generated %s nests %d levels deep; the generator's limit is %d", tg.name, dep, depthLimit), c, len(c.Pos))
		return res
	}
	if os.noEmptyLists {
		if dep, where := emptyListDepth(reflect.ValueOf(msg), 0); dep >= 0 && dep < depthLimit {
			h.ViolateMin(key("invalid:NoEmptyLists"), fmt.Sprintf("%s generated with NoEmptyLists from stream %s%v holds a present-but-empty list %s at nesting depth %d", tg.name, c.Base, devDesc(c), where, dep), c, len(c.Pos))
		}
	}
	if problem := validate(d, os, 0, false); problem != "" {
		cls := problem
		if i := strings.IndexAny(cls, ":{\""); i > 0 {
			cls = cls[:i]
		}
		if len(cls) > 50 {
			cls = cls[:50]
		}
		h.ViolateMin(key("invalid:"+strings.TrimSpace(cls)), fmt.Sprintf("%s generated with options %s from stream %s%v: %s", tg.name, os.name, c.Base, devDesc(c), problem), c, len(c.Pos))
	}
	// the yielded message owns its memory: no two bytes data in it overlap, and a later run of the generator
	// (same goroutine, another stream) leaves it as it was
	var rs []memRange
	byteSlices(msg.ProtoReflect(), "", &rs)
	for i := range rs {
		for j := i + 1; j < len(rs); j++ {
			if rs[i].lo < rs[j].hi && rs[j].lo < rs[i].hi {
				h.ViolateMin(key("invalid:bytes-share-memory"), fmt.Sprintf("%s generated with options %s from stream %s%v: the bytes data at %s and %s occupy overlapping memory", tg.name, os.name, c.Base, devDesc(c), rs[i].path, rs[j].path), c, len(c.Pos))
				return res
			}
		}
	}
	if len(rs) > 0 && (len(c.Pos) == 0 || c.Pos[0]%4 == 0) {
		before, _ := proto.MarshalOptions{Deterministic: true}.Marshal(msg)
		// later runs on each base stream (payloads of other sizes and contents), then on the same stream again
		for _, bn := range baseOrder {
			generate(t, tg, os, mkStream(basePattern(bn), c.Horizon, nil, nil))
		}
		generate(t, tg, os, stream)
		after, _ := proto.MarshalOptions{Deterministic: true}.Marshal(msg)
		if string(before) != string(after) {
			h.ViolateMin(key("invalid:changed-by-a-later-run"), fmt.Sprintf("%s generated with options %s from stream %s%v changed when the generator was run again afterwards (on the four base streams): %x -> %x", tg.name, os.name, c.Base, devDesc(c), clipB(before), clipB(after)), c, len(c.Pos))
			return res
		}
	}
	h.Eval(true, hz.HashBytes([]byte(tg.name), []byte(os.name), enc))
	if h.WantSample() && len(enc) > 4 && len(c.Pos) == 1 {
		h.Sample(map[string]interface{}{"type": tg.name, "options": os.name, "base_stream": c.Base, "deviating_positions": c.Pos, "deviating_words": c.Words, "generated_message_encoding_len": len(enc)})
	}
	return res
}

func clipB(b []byte) []byte {
	if len(b) > 80 {
		return b[:80]
	}
	return b
}

func devDesc(c c18case) string {
	if len(c.Pos) == 0 {
		return ""
	}
	return fmt.Sprintf(" with words %v at positions %v", c.Words, c.Pos)
}

// basePattern: "all-..." names a constant stream; "p:w1,w2[,w3]" (hex words) a periodic one.
func basePattern(name string) []uint64 {
	if w, ok := bases[name]; ok {
		return []uint64{w}
	}
	var out []uint64
	for _, f := range strings.Split(strings.TrimPrefix(name, "p:"), ",") {
		var w uint64
		fmt.Sscanf(f, "%x", &w)
		out = append(out, w)
	}
	return out
}

func mkStream(pattern []uint64, horizon int, pos []int, words []uint64) []byte {
	b := make([]byte, 8*horizon)
	for i := 0; i < horizon; i++ {
		if w := pattern[i%len(pattern)]; w != 0 {
			binary.LittleEndian.PutUint64(b[8*i:], w)
		}
	}
	for i, p := range pos {
		binary.LittleEndian.PutUint64(b[8*p:], words[i])
	}
	return b
}

func TestC18(t *testing.T) {
	h := hz.New()
	if h.Prop != "C18" {
		t.Skip("engine entry point; run through /verif/check")
	}
	tgs := targets()
	oss := optionSets()
	if h.Replay != "" {
		// one P: state a generator keeps per P (sync.Pool private slots) is then reached by every subtest goroutine,
		// so a replay does not depend on which P a goroutine lands on
		runtime.GOMAXPROCS(1)
		var c c18case
		h.LoadReplay(&c)
		for _, tg := range tgs {
			for _, os := range oss {
				if tg.name == c.Type && os.name == c.Options {
					runOne(t, h, tg, os, c, mkStream(basePattern(c.Base), c.Horizon, c.Pos, c.Words))
				}
			}
		}
		h.Eval(true, 1)
		h.Eval(true, 2)
		h.Finish()
	}
	P, K, H := 160, 1, 1<<12
	if h.Thorough() {
		P, K, H = 128, 2, 1<<14
	}
	h.Rep.Bounds["positions_P"] = P
	h.Rep.Bounds["max_deviations_k"] = K
	h.Rep.Bounds["horizon_words_H"] = H
	h.Rep.Bounds["deviation_words"] = fmt.Sprintf("%x", devWords)
	h.Rep.Bounds["base_streams"] = baseOrder
	var beyond, done, total atomic.Int64
	type job struct {
		tg   target
		os   optSet
		base string
		pos  []int
		w    []uint64
		hor  int // horizon in words (0: the tier's default)
	}
	var mu sync.Mutex
	var termination []string
	var names []string
	h.Stream("word streams", func(emit func(interface{}) bool) {
		for _, tg := range tgs {
			names = append(names, tg.name)
			for _, os := range oss {
				if tg.name == "google.protobuf.Any" && !os.anyTypes {
					continue // an Any cannot be generated without AnyTypeURLs: unsatisfiable option set, not judged
				}
				if tg.name == "mx.Anys" && os.anyTypes && !os.hints {
					continue // mx.Anys.hinted accepts interface verif.Iface: without a hint for it the generator panics by design
				}
				// a string costs four words per rune in rapid v1.1.0: continue? (a float: all-ones continues, zero stops), rune table
				// (low bits of the word), bit length of the index (a float: 0 -> 1 bit, ~1 -> the table's last rune), index bits.
				// Every stream repeating (continue, table t, length word g, index word i) for t < 32, 3 g, 5 i - in each of its 4
				// rotations - with one stopping word at every position < P yields strings of one rune repeated 0..~40 times,
				// for every reachable rune table (1- to 4-byte runes). Single string field only.
				if tg.name == "B" && os.name == "zero" {
					for t := uint64(0); t < 32; t++ {
						for _, g := range []uint64{0, 1 << 52, 1<<53 - 1} {
							for _, ix := range []uint64{0, 1, 3, 0x7f, ^uint64(0)} {
								pat := []uint64{^uint64(0), t, g, ix}
								for rot := 0; rot < 4; rot++ {
									name := fmt.Sprintf("p:%x,%x,%x,%x", pat[rot%4], pat[(rot+1)%4], pat[(rot+2)%4], pat[(rot+3)%4])
									for p := 0; p < P; p++ {
										if !emit(job{tg, os, name, []int{p}, []uint64{0}, 512}) {
											return
										}
									}
								}
							}
						}
					}
				}
				// periodic streams (period 2; thorough: also period 3) over the boundary words, run as they are
				for _, w1 := range devWords {
					for _, w2 := range devWords {
						if w1 == w2 {
							continue
						}
						if !emit(job{tg, os, fmt.Sprintf("p:%x,%x", w1, w2), nil, nil, 0}) {
							return
						}
						if h.Thorough() {
							for _, w3 := range devWords {
								if !emit(job{tg, os, fmt.Sprintf("p:%x,%x,%x", w1, w2, w3), nil, nil, 0}) {
									return
								}
							}
						}
					}
				}
				for _, bn := range baseOrder {
					if !emit(job{tg, os, bn, nil, nil, 0}) {
						return
					}
					for p := 0; p < P; p++ {
						for _, w := range devWords {
							if w == bases[bn] {
								continue
							}
							if !emit(job{tg, os, bn, []int{p}, []uint64{w}, 0}) {
								return
							}
						}
					}
					if K >= 2 {
						// pairs over the first positions and a thinner word set
						ws := []uint64{0, 1, 0xff, 1 << 52, ^uint64(0)}
						for p1 := 0; p1 < 24; p1++ {
							for p2 := p1 + 1; p2 < 48; p2++ {
								for _, w1 := range ws {
									for _, w2 := range ws {
										if !emit(job{tg, os, bn, []int{p1, p2}, []uint64{w1, w2}, 0}) {
											return
										}
									}
								}
							}
						}
					}
				}
			}
		}
	}, func(it interface{}) {
		j := it.(job)
		hor := H
		if j.hor > 0 {
			hor = j.hor
		}
		c := c18case{Type: j.tg.name, Options: j.os.name, Base: j.base, Pos: j.pos, Words: j.w, Horizon: hor}
		total.Add(1)
		switch runOne(t, h, j.tg, j.os, c, mkStream(basePattern(j.base), hor, j.pos, j.w)) {
		case beyondHorizon:
			beyond.Add(1)
			// branching-factor-1 recursion and the minimal stream must terminate well inside the horizon
			// (with DisallowNilMessages the fan-out of a recursive type is legitimately exponential even on the minimal stream)
			if len(j.pos) == 0 && (j.base == "all-zero" && !j.os.disallowNil || j.tg.name == "mx.Chain" || j.tg.name == "google.protobuf.Timestamp") {
				mu.Lock()
				termination = append(termination, fmt.Sprintf("%s/%s/%s", j.tg.name, j.os.name, j.base))
				mu.Unlock()
				h.ViolateMin(fmt.Sprintf("C18/termination/%s/options=%s", j.tg.name, j.os.name), fmt.Sprintf("generation of %s (options %s) on the %s stream did not finish within %d draws: the nesting limit does not stop the recursion", j.tg.name, j.os.name, j.base, H), c, 0)
			}
		case completed:
			done.Add(1)
		}
	})
	h.Rep.Bounds["types"] = names
	h.Rep.Bounds["option_sets"] = len(oss)
	h.Rep.States = total.Load()
	h.Rep.Transitions = total.Load()
	h.Rep.Traces = done.Load()
	h.AddExtra("runs_completed", done.Load())
	h.AddExtra("longest_generated_string_bytes", maxStringBytes.Load())
	h.AddExtra("generated_strings_longer_than_64_bytes_with_multibyte_runes", longMultibyteStrings.Load())
	h.AddExtra("runs_beyond_horizon_not_judged", beyond.Load())
	if done.Load() < 1000 {
		h.InternalError("vacuous: fewer than 1000 generator runs completed")
	}
	h.Rep.Rule = "the generator is a deterministic function of rapid's word stream (one 64-bit word per drawBits); for each (type, option set): every periodic stream of period 2 (thorough: 3) over the 13 boundary words as it is (for the single-string target B: every stream repeating (continue, rune table t<32, index-length word, index word) in each rotation with one stopping word at every position < P), and for each base stream in {all-zero, all-1, all-2^52, all-ones} EVERY stream differing from the base in <=k of the first P positions by one of 13 boundary words (thorough: plus pairs over the first 24x48 positions) is run through the real generator (rapid.MakeFuzz) and the generated message validated; state = word stream, transition = one generator run; runs that exhaust the horizon are counted and not judged except where the fan-out is 1 (termination); distinct = hash(type, options, generated encoding)"
	h.Rep.Assumptions = []string{"rapid v1.1.0 bufBitStream: each drawBits consumes one little-endian uint64 from the supplied buffer; an exhausted buffer aborts the run as invalid data", "lenient readings: behaviour beyond rapidproto's depthLimit and Any fields when no AnyTypeURLs are configured are not judged"}
	h.Finish()
}
